package main

import (
	"fmt"
	"sort"
	"strings"
	"sync"
	"sync/atomic"
)

func init() { registry["C15"] = checkC15 }

var roCmds = [][]string{{"ls-files"}, {"rev-parse", "HEAD"}, {"branch", "--list"}, {"log"}, {"status"}, {"reflog"}}

var roMemo sync.Map // state key -> []int exit codes (2 = panic)

func roExits(c *Ctx, s *State) []int {
	if v, ok := roMemo.Load(s.Key()); ok {
		return v.([]int)
	}
	out := make([]int, len(roCmds))
	for i, cmd := range roCmds {
		r, _ := c.Probe(s, nil, cmd...)
		out[i] = r.Exit
		if r.Panicked() {
			out[i] = 2
		}
	}
	roMemo.Store(s.Key(), out)
	return out
}

// corpusSteps: one representative of every modifying command.
func corpusSteps(n *Node) []Step {
	a := n.Abs()
	if !a.HasHead {
		return []Step{Run("init")}
	}
	if len(a.Index) > 500 && n.Depth >= 1 {
		return nil
	}
	if len(a.Index) > 500 {
		// a staging area of more than 64 KiB: only the commands that rewrite it
		return []Step{Run("add", "n"), Run("rm", fmt.Sprintf("huge/%s-%04d.txt", strings.Repeat("x", 100), 1)), Run("reset", "--mixed", "HEAD@{1}"), Run("commit", "-m", "m")}
	}
	steps := []Step{Run("add", "a"), Run("add", "d"), Run("add", "."), Run("rm", "a"), Run("commit", "-m", "m"), Run("branch", "b2"), Run("branch", strings.Repeat("L", 253)), Run("branch", "-r", "t"), Run("branch", "-d", "b"),
		Run("switch", "b"), Run("switch", "main"), Run("switch", "-c", "c"), Run("reset", "--soft", "HEAD@{1}"), Run("reset", "--mixed", "HEAD@{1}"), Run("reset", "--hard", "HEAD@{1}"),
		Run("restore", "a"), Run("restore", "--staged", "a"), Run("rm", "d"), Run("restore", "d"), Run("restore", "--staged", "d"), Run("config", "user.name", "X Y"), Run("config", "--global", "user.name", "G"), Run("config", "core."+strings.Repeat("k", 6000), "v"), Run("write-tree"), Write("a", fmt.Sprintf("edit %d\n", len(a.Objects)))}
	if tip := a.Tip(); tip != "" {
		steps = append(steps, Run("update-ref", "refs/heads/b", tip))
		steps = append(steps, Run("cat-file", "-p", tip))
	}
	// read-only commands: a failing read must not silently change what they print
	steps = append(steps, Run("status"), Run("log"), Run("reflog"), Run("ls-files", "-s"), Run("rev-parse", "HEAD"), Run("branch", "--list"))
	if len(a.LogHEAD) > 30 {
		// long journal (several reads): only the commands that consult it
		return []Step{Run("reflog"), Run("reset", "--soft", "HEAD@{1}"), Run("reset", "--soft", "HEAD@{40}"), Run("log", "-n", "3"), Run("commit", "-m", "m"), Run("status")}
	}
	return steps
}

func corpusSeeds() []Seed {
	return []Seed{{"empty", nil}, {"S0", seedS0()}, {"S1", seedS1()}, {"S2", seedS2()}, {"S3", seedS3()},
		{"S1+edit", append(seedS1(), Write("a", "a edited\n"), Write("d/x", "d/x edited\n"), Write("n", "new\n"))},
		{"S1+ignore", append(seedS1(), Write(".goitignore", "build/\n*.log\n"), Write("build/o", "o\n"), Write("x.log", "l\n"), Write("n", "new\n"))},
		{"chain45", seedChain(45)},
		{"index-over-64KiB", bigIndexSeed()}}
}

// bigIndexSeed: 700 tracked files with names of about 110 bytes (the staging-area file exceeds 64 KiB), two commits.
func bigIndexSeed() []Step {
	steps := seedS0()
	for i := 0; i < 700; i++ {
		steps = append(steps, Write(fmt.Sprintf("huge/%s-%04d.txt", strings.Repeat("x", 100), i), fmt.Sprintf("content %d\n", i)))
	}
	steps = append(steps, Run("add", "huge"), Run("commit", "-m", "c1"), Write("a", "a\n"), Run("add", "a"), Run("commit", "-m", "c2"), Write("n", "new\n"))
	return steps
}

type c15Counters struct {
	crashRuns, crashStates, points, followUps int64
}

var followSeen sync.Map

// newTmp reports whether state b holds a leftover temporary file that a does not.
func newTmp(a, b *State) bool {
	for p := range b.Files {
		if strings.HasSuffix(p, ".tmp") || strings.Contains(p, ".tmp/") || strings.HasPrefix(p, ".goit.init") {
			if _, ok := a.Files[p]; !ok {
				return true
			}
		}
	}
	return false
}

// followUps judges what the next command does on a disk left by an interrupted or
// failed command: the same command again (the user's retry) and, where the
// interruption left temporary files behind, a few commands that write the same places.
// Each result must satisfy the structural invariants, keep the stored objects intact
// and must not crash. add(oracle, detail) records a violation.
func followUps(c *Ctx, pre *State, pa *Abs, left *State, st Step, add func(oracle, f string, args ...interface{})) int {
	if left.Key() == pre.Key() {
		return 0
	}
	steps := []Step{st}
	if newTmp(pre, left) {
		steps = append(steps, Run("switch", "b"), Run("switch", "-c", "c"), Run("add", "."), Run("commit", "-m", "m"))
	}
	n := 0
	for _, fu := range steps {
		if _, dup := followSeen.LoadOrStore(left.Key()+"|"+fu.String(), true); dup {
			continue
		}
		n++
		r, after := c.Probe(left, nil, fu.Args...)
		if r.Panicked() {
			add("follow-up-no-crash", "then `%s` crashes", fu)
			continue
		}
		aa := after.Abs()
		seen := map[string]bool{}
		for _, p := range aa.Fsck() {
			if !seen[p.Class] {
				seen[p.Class] = true
				add("follow-up-fsck:"+p.Class, "then `%s` (exit %d) leaves: %s", fu, r.Exit, p.Msg)
			}
		}
		for name, o := range pa.Objects {
			po, ok := aa.Objects[name]
			if o.Err == nil && (!ok || po.Err != nil || po.Kind != o.Kind || string(po.Body) != string(o.Body)) {
				add("follow-up-objects-intact", "then `%s` (exit %d) damages or loses object %s", fu, r.Exit, name)
				break
			}
		}
	}
	return n
}

var c15n c15Counters
var crashSeen sync.Map

func c15Trans(c *Ctx, pre *Node, st Step, res *Result, post *State) ([]Violation, bool) {
	if st.Op != "run" {
		return nil, true
	}
	pa, qa := pre.Abs(), post.Abs()
	_, _, ops := c.TraceRun(pre.State, st)
	var vs []Violation
	preRO := roExits(c, pre.State)
	postRO := roExits(c, post)
	baseTags := stateTags(pa)
	lastMod := "none"
	var modOps []string
	for _, op := range ops {
		if op.Mod {
			modOps = append(modOps, op.Kind+":"+c.targetClass(op.Path))
		}
	}
	mi := -1
	for _, op := range ops {
		if !op.Mod {
			continue
		}
		mi++
		atomic.AddInt64(&c15n.points, 1)
		tgt := c.targetClass(op.Path)
		tags := append(append([]string{}, baseTags...), "crash-before:"+op.Kind, "target:"+tgt, "after:"+lastMod)
		// which modifications of the uninterrupted run are done / still pending at this point (input-derived)
		for _, d := range modOps[:mi] {
			tags = append(tags, "done:"+d)
		}
		for _, d := range modOps[mi:] {
			tags = append(tags, "pending:"+d)
		}
		tags = unionTags(tags)
		lastMod = op.Kind + ":" + tgt
		r, crashed := c.InjectRun(pre.State, st, fmt.Sprintf("VERIF_CRASH_AT=%d", op.K))
		atomic.AddInt64(&c15n.crashRuns, 1)
		if r.Exit != 137 {
			harnessFatal("crash point %d of %s did not fire (exit %d): the execution is not deterministic", op.K, st, r.Exit)
		}
		if _, dup := crashSeen.LoadOrStore(crashed.Key(), true); !dup {
			atomic.AddInt64(&c15n.crashStates, 1)
		}
		inj := fmt.Sprintf("VERIF_CRASH_AT=%d", op.K)
		add := func(oracle, f string, args ...interface{}) {
			vs = append(vs, Violation{Oracle: oracle, Command: st.Cmd(), Tags: tags, Site: op.SiteText(), Binary: "goit-v (seam build)", Inject: inj,
				Detail: fmt.Sprintf("killed before op %d (%s %s): ", op.K, op.Kind, tgt) + fmt.Sprintf(f, args...)})
		}
		ca := crashed.Abs()
		if st.Cmd() == "init" {
			// either a loadable repository with a valid HEAD, or init can be run again
			ls, _ := c.Probe(crashed, nil, "ls-files")
			ri, again := c.Probe(crashed, nil, "init")
			okRepo := ls.Exit == 0 && ca.HasHead && ca.HeadRef != ""
			okAgain := ri.Exit == 0 && again.Abs().HasHead
			if !okRepo && !okAgain {
				add("init-recoverable", "the directory is neither a loadable repository (ls-files exit %d, HEAD %q) nor can init be run again (exit %d)", ls.Exit, ca.HeadRaw, ri.Exit)
			}
			continue
		}
		// (i) loaders still load; read-only commands that worked before and after still work
		cr := roExits(c, crashed)
		if cr[0] != 0 {
			add("loaders-still-load", "ls-files exits %d on the post-crash repository", cr[0])
		} else {
			for i := 1; i < len(roCmds); i++ {
				if preRO[i] == 0 && postRO[i] == 0 && cr[i] != 0 {
					add("readonly-still-works", "%v exits %d on the post-crash repository (0 before the command and after the uninterrupted command)", roCmds[i], cr[i])
					break
				}
			}
		}
		// (ii) fsck
		seen := map[string]bool{}
		for _, p := range ca.Fsck() {
			if !seen[p.Class] {
				seen[p.Class] = true
				add("fsck:"+p.Class, "%s", p.Msg)
			}
		}
		// objects that existed before are still intact
		for name, o := range pa.Objects {
			po, ok := ca.Objects[name]
			if o.Err == nil && (!ok || po.Err != nil || po.Kind != o.Kind || string(po.Body) != string(o.Body)) {
				add("stored-objects-intact", "object %s that was intact before the command is damaged or gone", name)
				break
			}
		}
		// (iii) every branch names its old commit or the commit of the uninterrupted run
		for n, v := range ca.Branches {
			old, hadOld := pa.Branches[n]
			nw, hasNew := qa.Branches[n]
			if (hadOld && v == old) || (hasNew && v == nw) {
				continue
			}
			add("branch-old-or-new", "branch %q holds %q; before the command %q, after the uninterrupted command %q", n, v, old, nw)
			break
		}
		// (iv) the next command on the post-crash disk
		atomic.AddInt64(&c15n.followUps, int64(followUps(c, pre.State, pa, crashed, st, add)))
	}
	return vs, true
}

func checkC15(e *RunEnv) *CheckResult {
	spec := &Spec{
		Seeds:      corpusSeeds(),
		Depth: e.depth(2, 4),
		Steps:      corpusSteps,
		CheckTrans: c15Trans,
	}
	res := runSpec(e, spec, func(x *Explorer, cov map[string]interface{}) {
		cov["crash_points"] = int(c15n.points)
		cov["crash_runs"] = int(c15n.crashRuns)
		cov["follow_up_runs"] = int(c15n.followUps)
		cov["distinct_post_crash_states"] = int(c15n.crashStates)
		cov["evaluations"] = int(c15n.crashRuns) + int(x.Probes)
		cov["distinct_nontrivial"] = int(c15n.crashStates)
		cov["rule"] = "corpus = every transition of a BFS (depth bound) over one representative of each modifying command from six seed states; for each transition the operation trace is recorded through the file-system seam and the command is re-run once per modifying operation point with a kill immediately before that point; each post-crash disk is judged by the recovery suite (loaders, read-only commands, independent fsck, branch old-or-new) and by the next command run on it (the same command again; where temporary files were left behind also switch, switch -c, add ., commit), whose result must satisfy the same structural invariants; distinct_nontrivial = distinct post-crash disk states"
		var kinds []string
		for k, n := range x.Outcomes {
			kinds = append(kinds, fmt.Sprintf("%s=%d", k, n))
		}
		sort.Strings(kinds)
		cov["corpus_outcomes"] = strings.Join(kinds, " ")
	})
	res.Level = "fault_enumeration"
	return res
}
