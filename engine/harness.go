package main

// Driver for in-module harnesses: builds the harness inside the scratch copy of the
// module, runs it in N shards (worker subprocesses with an address-space limit and a
// watchdog) and aggregates violations and counters.

import (
	"bufio"
	"bytes"
	"context"
	"encoding/json"
	"fmt"
	"os"
	"os/exec"
	"path/filepath"
	"strings"
	"sync"
	"time"
)

type HarnessSummary struct {
	Evaluations int
	Distinct    int
	Samples     []string
	Exhaustive  bool
	Extra       map[string]float64
}

// runHarness returns violations and the aggregated summary. A shard that dies without
// a summary is reported through `onCrash` (C19 treats it as a violation, the others as
// harness error).
func runHarness(e *RunEnv, name string, extraArgs []string, onCrash func(shard int, journal, stderr string) *Violation) ([]Violation, *HarnessSummary) {
	bin, err := e.B.BuildHarness(name)
	if err != nil {
		harnessFatal("%v", err)
	}
	n := e.Workers
	var mu sync.Mutex
	var vs []Violation
	sum := &HarnessSummary{Exhaustive: true, Extra: map[string]float64{}}
	var wg sync.WaitGroup
	for sh := 0; sh < n; sh++ {
		wg.Add(1)
		go func(sh int) {
			defer wg.Done()
			wd := filepath.Join(e.B.Scratch, fmt.Sprintf("%s-%d", name, sh))
			os.MkdirAll(wd, 0o755)
			ctx, cancel := context.WithDeadline(context.Background(), e.Deadline.Add(30*time.Second))
			defer cancel()
			args := append([]string{wd, e.Tier, fmt.Sprint(sh), fmt.Sprint(n)}, extraArgs...)
			q := make([]string, len(args))
			for i, a := range args {
				q[i] = shQuote(a)
			}
			cmd := exec.CommandContext(ctx, "/bin/sh", "-c", "ulimit -v 8000000; exec "+shQuote(bin)+" "+strings.Join(q, " "))
			cmd.Env = []string{"HOME=" + wd, "GOMAXPROCS=2", "TZ=UTC", "NO_COLOR=1", "PATH=/usr/bin:/bin", "VERIF_DEADLINE=" + fmt.Sprint(e.Deadline.Unix())}
			var so, se bytes.Buffer
			cmd.Stdout, cmd.Stderr = &so, &se
			runErr := cmd.Run()
			gotSummary := false
			sc := bufio.NewScanner(&so)
			sc.Buffer(make([]byte, 1<<20), 64<<20)
			mu.Lock()
			defer mu.Unlock()
			for sc.Scan() {
				line := sc.Bytes()
				var m map[string]interface{}
				if json.Unmarshal(line, &m) != nil {
					continue
				}
				if m["summary"] == true {
					gotSummary = true
					sum.Evaluations += int(m["evaluations"].(float64))
					sum.Distinct += int(m["distinct"].(float64))
					if ex, ok := m["exhaustive"].(bool); ok && !ex {
						sum.Exhaustive = false
					}
					if ss, ok := m["samples"].([]interface{}); ok {
						for _, s := range ss {
							if len(sum.Samples) < 8 {
								sum.Samples = append(sum.Samples, fmt.Sprint(s))
							}
						}
					}
					for k, v := range m {
						if f, ok := v.(float64); ok && k != "evaluations" && k != "distinct" {
							sum.Extra[k] += f
						}
					}
					continue
				}
				var v Violation
				if json.Unmarshal(line, &v) == nil && v.Oracle != "" {
					vs = append(vs, v)
				}
			}
			if !gotSummary && ctx.Err() != nil {
				// stopped by this driver's own deadline: the enumeration is incomplete, nothing is known about the case in progress
				sum.Exhaustive = false
				sum.Extra["shards_stopped_at_deadline"]++
			} else if !gotSummary {
				j, _ := os.ReadFile(filepath.Join(wd, "journal"))
				if v := onCrash(sh, string(j), fmt.Sprintf("[%v] ", runErr)+trunc(se.String(), 2000)); v != nil {
					vs = append(vs, *v)
				} else {
					mu.Unlock()
					harnessFatal("harness %s shard %d ended without a summary (%v): %s", name, sh, runErr, trunc(se.String(), 1500))
				}
			}
			os.RemoveAll(wd)
		}(sh)
	}
	wg.Wait()
	return vs, sum
}
