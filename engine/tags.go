package main

import (
	"sort"
	"strings"
)

// pathArgTags computes input features of path arguments in a state. They are
// derived from the input alone (never from what the command then does) and are what
// known-finding signatures are matched against.
func pathArgTags(a *Abs, args []string) []string {
	set := map[string]bool{}
	I := a.IndexMap()
	seenArg := map[string]bool{}
	for _, arg := range args {
		if strings.HasPrefix(arg, "-") {
			continue
		}
		c := cleanArg(arg)
		if seenArg[c] {
			set["arg:repeated"] = true
		}
		seenArg[c] = true
		_, isFile := a.W[c]
		isDir := !isFile && hasDirOnDisk(a, c)
		_, tracked := I[c]
		beneath, untrackedBeneath, deletedBeneath := false, false, false
		for p := range I {
			if isUnder(p, c) {
				beneath = true
				if _, ok := a.W[p]; !ok {
					deletedBeneath = true
				}
			}
		}
		for p := range a.W {
			if isUnder(p, c) {
				if _, ok := I[p]; !ok && !strings.HasPrefix(p, ".goit/") {
					untrackedBeneath = true
				}
			}
		}
		switch {
		case c == "." || c == "./":
			set["arg:dot"] = true
		case c == ".goit" || strings.HasPrefix(c, ".goit/"):
			set["arg:metadata"] = true
		case isFile && tracked:
			set["arg:tracked-file"] = true
		case isFile:
			set["arg:untracked-file"] = true
		case isDir && beneath:
			set["arg:tracked-dir"] = true
		case isDir:
			set["arg:untracked-dir"] = true
		case tracked:
			set["arg:deleted-tracked-file"] = true
		case beneath:
			set["arg:deleted-tracked-dir"] = true
		default:
			set["arg:unknown"] = true
		}
		if isDir && untrackedBeneath {
			set["dir-has-untracked"] = true
		}
		if isDir && deletedBeneath {
			set["dir-has-deleted-tracked"] = true
		}
		if beneath || isDir {
			for p := range I {
				// a tracked name that sorts between "<dir>" and "<dir>/"
				if p > c && p < c+"/" && !isUnder(p, c) {
					set["sibling-sorts-between-dir-and-dir/"] = true
				}
				if !isUnder(p, c) && strings.Contains(p, c+"/") {
					set["dir-name-is-substring"] = true
				}
			}
		}
		if strings.ContainsAny(c, `()[]{}*+?\^$|`) {
			set["name-has-regexp-meta"] = true
		}
		if strings.Contains(c, " ") {
			set["name-has-space"] = true
		}
		// a parent component that is a regular file (ENOTDIR)
		for i := 0; i < len(c); i++ {
			if c[i] == '/' {
				if _, ok := a.W[c[:i]]; ok {
					set["parent-is-regular-file"] = true
				}
			}
		}
	}
	if len(a.Branches) == 0 {
		set["unborn"] = true
	}
	var out []string
	for t := range set {
		out = append(out, t)
	}
	sort.Strings(out)
	return out
}

// nameSetTags: features of the set of tracked names.
func nameSetTags(paths []string) []string {
	set := map[string]bool{}
	for _, p := range paths {
		if strings.Contains(p, " ") {
			set["name-has-space"] = true
		}
		if strings.ContainsAny(p, `()[]{}*+?\^$|`) {
			set["name-has-regexp-meta"] = true
		}
		for _, b := range []byte(p) {
			if b >= 0x80 {
				set["name-non-ascii"] = true
			}
		}
	}
	// a file that sorts between "<dir>" and "<dir>/" for some directory of the set
	dirs := map[string]bool{}
	for _, p := range paths {
		for i := 0; i < len(p); i++ {
			if p[i] == '/' {
				dirs[p[:i]] = true
			}
		}
	}
	for d := range dirs {
		for _, p := range paths {
			if p > d && p < d+"/" {
				set["sibling-sorts-between-dir-and-dir/"] = true
			}
		}
	}
	var out []string
	for t := range set {
		out = append(out, t)
	}
	sort.Strings(out)
	return out
}

func unionTags(ts ...[]string) []string {
	set := map[string]bool{}
	for _, t := range ts {
		for _, x := range t {
			set[x] = true
		}
	}
	var out []string
	for t := range set {
		out = append(out, t)
	}
	sort.Strings(out)
	return out
}
