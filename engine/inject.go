package main

// Crash-point and fault-position enumeration through the file-system seam.

import (
	"fmt"
	"os"
	"path/filepath"
	"strconv"
	"strings"
	"sync"
)

type OpPoint struct {
	K        int
	Kind     string // create | open | read | readdir | write | mkdir | remove | rename | chmod
	Mod      bool
	N        int
	Path     string
	SiteFile string
	SiteLine int
	SiteFunc string
}

func parseTrace(data string) []OpPoint {
	var ops []OpPoint
	for _, l := range strings.Split(strings.TrimSuffix(data, "\n"), "\n") {
		f := strings.SplitN(l, "\t", 6)
		if len(f) != 6 {
			continue
		}
		k, _ := strconv.Atoi(f[0])
		n, _ := strconv.Atoi(f[3])
		path, _ := strconv.Unquote(f[4])
		op := OpPoint{K: k, Kind: f[1], Mod: f[2] == "1", N: n, Path: path}
		site := f[5]
		if sp := strings.IndexByte(site, ' '); sp >= 0 {
			loc := site[:sp]
			op.SiteFunc = site[sp+1:]
			if j := strings.LastIndexByte(loc, ':'); j >= 0 {
				op.SiteFile = loc[:j]
				op.SiteLine, _ = strconv.Atoi(loc[j+1:])
			}
		}
		ops = append(ops, op)
	}
	return ops
}

var siteTextMemo sync.Map

func (o OpPoint) SiteText() string {
	key := fmt.Sprintf("%s:%d", o.SiteFile, o.SiteLine)
	if v, ok := siteTextMemo.Load(key); ok {
		return v.(string)
	}
	t := SourceLine(o.SiteFile, o.SiteLine)
	siteTextMemo.Store(key, t)
	return t
}

// targetClass classifies an operation's path relative to the sandbox.
func (c *Ctx) targetClass(p string) string {
	if i := strings.Index(p, " -> "); i >= 0 {
		p = p[i+4:]
	}
	if !filepath.IsAbs(p) {
		p = filepath.Join(c.SB.Root(), p)
	}
	p = filepath.Clean(p)
	rel, err := filepath.Rel(c.SB.Dir, p)
	if err != nil {
		return "other"
	}
	rel = filepath.ToSlash(rel)
	switch {
	case rel == "home/.goitconfig":
		return "global-config"
	case rel == "root/.goit":
		return ".goit"
	case strings.HasPrefix(rel, "root/.goit/objects/"):
		if strings.Count(rel, "/") == 3 {
			return "objects/xx"
		}
		return "objects/*"
	case rel == "root/.goit/objects", rel == "root/.goit/refs", rel == "root/.goit/refs/heads", rel == "root/.goit/refs/tags":
		return ".goit/<dir>"
	case strings.HasPrefix(rel, "root/.goit/refs/heads/"):
		return "refs/heads/*"
	case rel == "root/.goit/index", rel == "root/.goit/HEAD", rel == "root/.goit/config":
		return rel[len("root/.goit/"):]
	case strings.HasPrefix(rel, "root/.goit/logs"):
		return "logs/*"
	case strings.HasPrefix(rel, "root/.goit/"):
		return ".goit/other"
	case strings.HasPrefix(rel, "root/"):
		return "worktree"
	}
	return "other"
}

func (c *Ctx) tracePath() string { return filepath.Join(c.SB.Dir, "trace") }

// TraceRun executes st on s with operation tracing.
func (c *Ctx) TraceRun(s *State, st Step) (*Result, *State, []OpPoint) {
	os.Remove(c.tracePath())
	r, post, err := c.SB.Exec(s, c.Bin, append(append(append([]string{}, c.X.Spec.Env...), st.Env...), "VERIF_TRACE="+c.tracePath()), st.Args...)
	if err != nil {
		harnessFatal("trace run: %v", err)
	}
	data, _ := os.ReadFile(c.tracePath())
	return r, post, parseTrace(string(data))
}

// InjectRun executes st on s with one crash or one fault at point k.
func (c *Ctx) InjectRun(s *State, st Step, inject string) (*Result, *State) {
	r, post, err := c.SB.Exec(s, c.Bin, append(append(append([]string{}, c.X.Spec.Env...), st.Env...), inject), st.Args...)
	if err != nil {
		harnessFatal("inject run: %v", err)
	}
	return r, post
}
