package main

import (
	"sync/atomic"
	"time"
)

// Case is one input of a pure input enumeration: steps executed from a prepared base
// state; every executed command is judged by the spec's CheckTrans. Cases are
// enumerated completely, never sampled.
type Case struct {
	Base     *State
	BaseName string
	BaseSeed []Step // how Base was produced (for the replay artefact)
	Steps    []Step
	// Probe: also apply the spec's CheckState (status / reflog / ... probes) to the state after every command
	Probe bool
}

// RunCases executes every case (in parallel) and records violations. It returns the
// number of cases completed; when the deadline fires, Exhaustive is cleared.
func (x *Explorer) RunCases(cases []Case) int {
	var done int64
	x.parallel(len(cases), func(c *Ctx, i int) {
		if time.Now().After(x.Deadline) {
			x.mu.Lock()
			x.Exhaustive = false
			x.mu.Unlock()
			return
		}
		cs := cases[i]
		cur := &Node{State: cs.Base, Seed: cs.BaseName, SeedSteps: cs.BaseSeed}
		if cs.Base == nil {
			cur.State = NewState()
		}
		for k, st := range cs.Steps {
			var post *State
			if st.Op == "run" {
				rr, p, err := c.SB.Exec(cur.State, x.Bin, append(append([]string{}, x.Spec.Env...), st.Env...), st.Args...)
				if err != nil {
					harnessFatal("case exec: %v", err)
				}
				post = p
				atomic.AddInt64(&x.Transitions, 1)
				cls := "applied"
				if rr.Panicked() {
					cls = "panic"
				} else if rr.Exit != 0 {
					cls = "refused"
				}
				x.mu.Lock()
				x.Outcomes[st.Cmd()+":"+cls]++
				if len(x.Samples) < 6 && i%211 == 0 && k == len(cs.Steps)-1 {
					x.Samples = append(x.Samples, "["+cs.BaseName+"] "+traceString(cs.Steps)+" => exit "+itoa(rr.Exit))
				}
				x.mu.Unlock()
				var vs []Violation
				expand := true
				if rr.TimedOut {
					vs = append(vs, Violation{Oracle: "terminates", Command: st.Cmd(), Tags: st.Tags, Detail: "timeout"})
					expand = false
				} else if x.Spec.CheckTrans != nil {
					vs, expand = x.Spec.CheckTrans(c, cur, st, rr, post)
				}
				if len(vs) > 0 {
					x.mu.Lock()
					for _, v := range vs {
						if v.Trace == nil {
							v.Trace = append(append([]Step{}, cs.BaseSeed...), cs.Steps[:k+1]...)
						}
						v.Seed = cs.BaseName
						if v.Env == nil {
							v.Env = x.Spec.Env
						}
						x.Violations = append(x.Violations, v)
					}
					x.mu.Unlock()
				}
				if !expand {
					atomic.AddInt64(&x.Pruned, 1)
					break
				}
			} else {
				post = ApplyEnv(cur.State, st)
			}
			cur = &Node{State: post, Parent: cur, Via: st, Depth: k + 1, Seed: cs.BaseName}
			if cs.Probe && st.Op == "run" && x.Spec.CheckState != nil {
				if vs := x.Spec.CheckState(c, cur); len(vs) > 0 {
					x.addViolations(vs, cur, nil)
					atomic.AddInt64(&x.Pruned, 1)
					break
				}
			}
		}
		atomic.AddInt64(&done, 1)
	})
	return int(done)
}

// BuildState runs a seed trace and returns its final state (harness error on failure).
func (x *Explorer) BuildState(steps []Step) *State {
	states, results, err := ExecTrace(x.ctxs[0].SB, x.Bin, x.Spec.Env, steps)
	if err != nil {
		harnessFatal("seed: %v", err)
	}
	for i, r := range results {
		if r != nil && r.Exit != 0 && !steps[i].Invalid {
			x.mu.Lock()
			x.Violations = append(x.Violations, Violation{Oracle: "seed-command-succeeds", Command: steps[i].Cmd(), Trace: steps[:i+1],
				Detail: "an ordinary command of a seed scenario failed: " + steps[i].String() + outputTail(r)})
			x.mu.Unlock()
			return nil
		}
	}
	if len(states) == 0 {
		return NewState()
	}
	return states[len(states)-1]
}
