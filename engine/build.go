package main

// Building from /repo's current working tree. /repo itself is never written:
// the tree is copied to a scratch directory on tmpfs; a second copy gets the
// os/time imports swapped for the seam packages (shim/*).

import (
	"bytes"
	"embed"
	"fmt"
	"go/parser"
	"go/token"
	"io/fs"
	"os"
	"os/exec"
	"os/signal"
	"path/filepath"
	"regexp"
	"sort"
	"strconv"
	"strings"
	"sync"
	"syscall"
)

//go:embed shim/vos/*.go shim/vtime/*.go shim/vioutil/*.go shim/vfilepath/*.go
var shimFS embed.FS

//go:embed all:inmodule
var inmoduleFS embed.FS

type Build struct {
	Repo     string
	Scratch  string
	Module   string
	PlainSrc string
	VSrc     string
	Goit     string // unmodified main
	GoitV    string // seam build
	BinDir   string
	mu       sync.Mutex
}

var goEnv = []string{"GOFLAGS=-mod=mod", "GOPROXY=off", "GOSUMDB=off", "GOTOOLCHAIN=local", "CGO_ENABLED=0"}

func scratchBase() string {
	if fi, err := os.Stat("/dev/shm"); err == nil && fi.IsDir() {
		if f, err := os.CreateTemp("/dev/shm", "verif-probe"); err == nil {
			f.Close()
			os.Remove(f.Name())
			return "/dev/shm"
		}
	}
	return os.TempDir()
}

var theScratch string

func cleanupScratch() {
	if theScratch != "" && os.Getenv("VERIF_KEEP_SCRATCH") == "" {
		os.RemoveAll(theScratch)
	}
}

func removeStaleScratch(base string) {
	ents, _ := os.ReadDir(base)
	re := regexp.MustCompile(`^verif-(\d+)-`)
	for _, e := range ents {
		m := re.FindStringSubmatch(e.Name())
		if m == nil {
			continue
		}
		pid, _ := strconv.Atoi(m[1])
		if pid > 0 && syscall.Kill(pid, 0) != nil {
			os.RemoveAll(filepath.Join(base, e.Name()))
		}
	}
}

func NewBuild(repo string) (*Build, error) {
	base := scratchBase()
	removeStaleScratch(base)
	dir, err := os.MkdirTemp(base, fmt.Sprintf("verif-%d-", os.Getpid()))
	if err != nil {
		return nil, err
	}
	theScratch = dir
	sig := make(chan os.Signal, 1)
	signal.Notify(sig, syscall.SIGINT, syscall.SIGTERM, syscall.SIGHUP)
	go func() {
		<-sig
		cleanupScratch()
		os.Exit(130)
	}()
	b := &Build{Repo: repo, Scratch: dir, PlainSrc: filepath.Join(dir, "plain"), VSrc: filepath.Join(dir, "v"), BinDir: filepath.Join(dir, "bin")}
	os.MkdirAll(b.BinDir, 0o755)
	gm, err := os.ReadFile(filepath.Join(repo, "go.mod"))
	if err != nil {
		return nil, fmt.Errorf("read go.mod: %w", err)
	}
	m := regexp.MustCompile(`(?m)^module\s+(\S+)`).FindSubmatch(gm)
	if m == nil {
		return nil, fmt.Errorf("no module line in go.mod")
	}
	b.Module = string(m[1])
	if err := b.copyTree(b.PlainSrc, false); err != nil {
		return nil, err
	}
	if err := b.copyTree(b.VSrc, true); err != nil {
		return nil, err
	}
	// in-module harness sources go into both copies
	for _, dst := range []string{b.PlainSrc, b.VSrc} {
		if err := b.copyEmbedded(inmoduleFS, "inmodule", filepath.Join(dst, "internal", "zzverif")); err != nil {
			return nil, err
		}
	}
	if err := b.copyEmbedded(shimFS, "shim", filepath.Join(b.VSrc, "internal", "zzverif")); err != nil {
		return nil, err
	}
	return b, nil
}

func (b *Build) copyEmbedded(efs embed.FS, root, dst string) error {
	return fs.WalkDir(efs, root, func(p string, d fs.DirEntry, err error) error {
		if err != nil {
			return err
		}
		rel, _ := filepath.Rel(root, p)
		out := filepath.Join(dst, rel)
		if d.IsDir() {
			return os.MkdirAll(out, 0o755)
		}
		data, err := efs.ReadFile(p)
		if err != nil {
			return err
		}
		if strings.HasSuffix(out, ".go.txt") {
			out = strings.TrimSuffix(out, ".txt")
		}
		data = bytes.ReplaceAll(data, []byte("MODULE/"), []byte(b.Module+"/"))
		return os.WriteFile(out, data, 0o644)
	})
}

var seamMap = map[string]string{"os": "vos", "time": "vtime", "io/ioutil": "vioutil", "path/filepath": "vfilepath"}

func (b *Build) copyTree(dst string, rewrite bool) error {
	return filepath.WalkDir(b.Repo, func(p string, d fs.DirEntry, err error) error {
		if err != nil {
			return err
		}
		rel, _ := filepath.Rel(b.Repo, p)
		if rel == ".git" {
			if d.IsDir() {
				return filepath.SkipDir
			}
			return nil // a worktree's .git is a file
		}
		out := filepath.Join(dst, rel)
		if d.IsDir() {
			return os.MkdirAll(out, 0o755)
		}
		if !d.Type().IsRegular() {
			return nil
		}
		data, err := os.ReadFile(p)
		if err != nil {
			return err
		}
		if rewrite && strings.HasSuffix(rel, ".go") && !strings.HasSuffix(rel, "_test.go") {
			data = rewriteImports(data, b.Module)
		}
		return os.WriteFile(out, data, 0o644)
	})
}

// rewriteImports swaps the import paths "os", "time", "io/ioutil" for the seam
// packages. Only the import spec changes; line numbers are preserved.
func rewriteImports(src []byte, module string) []byte {
	fset := token.NewFileSet()
	f, err := parser.ParseFile(fset, "x.go", src, parser.ImportsOnly)
	if err != nil {
		return src
	}
	type edit struct {
		from, to int
		text     string
	}
	var edits []edit
	for _, im := range f.Imports {
		path, _ := strconv.Unquote(im.Path.Value)
		seam, ok := seamMap[path]
		if !ok {
			continue
		}
		newPath := strconv.Quote(module + "/internal/zzverif/" + seam)
		text := newPath
		if im.Name == nil {
			text = path[strings.LastIndex(path, "/")+1:] + " " + newPath
		}
		edits = append(edits, edit{fset.Position(im.Path.Pos()).Offset, fset.Position(im.Path.End()).Offset, text})
	}
	sort.Slice(edits, func(i, j int) bool { return edits[i].from > edits[j].from })
	out := append([]byte{}, src...)
	for _, e := range edits {
		out = append(out[:e.from], append([]byte(e.text), out[e.to:]...)...)
	}
	return out
}

func (b *Build) goBuild(srcDir, out, pkg string) error {
	cmd := exec.Command("go", "build", "-o", out, pkg)
	cmd.Dir = srcDir
	cmd.Env = append(os.Environ(), goEnv...)
	var buf bytes.Buffer
	cmd.Stdout, cmd.Stderr = &buf, &buf
	if err := cmd.Run(); err != nil {
		return fmt.Errorf("go build %s in %s: %v\n%s", pkg, srcDir, err, buf.String())
	}
	return nil
}

// BuildCLI builds the plain and the seam binary (in parallel).
func (b *Build) BuildCLI(plain, seam bool) error {
	var wg sync.WaitGroup
	var e1, e2 error
	if plain {
		b.Goit = filepath.Join(b.BinDir, "goit")
		wg.Add(1)
		go func() { defer wg.Done(); e1 = b.goBuild(b.PlainSrc, b.Goit, ".") }()
	}
	if seam {
		b.GoitV = filepath.Join(b.BinDir, "goit-v")
		wg.Add(1)
		go func() { defer wg.Done(); e2 = b.goBuild(b.VSrc, b.GoitV, ".") }()
	}
	wg.Wait()
	if e1 != nil {
		return e1
	}
	return e2
}

// BuildHarness builds one in-module harness (from the plain copy) and returns its path.
func (b *Build) BuildHarness(name string) (string, error) {
	out := filepath.Join(b.BinDir, name)
	if err := b.goBuild(b.PlainSrc, out, "./internal/zzverif/"+name); err != nil {
		return "", err
	}
	return out, nil
}

// SourceLine returns the text of file:line (file may be a path inside either copy).
func SourceLine(file string, line int) string {
	data, err := os.ReadFile(file)
	if err != nil {
		return ""
	}
	lines := strings.Split(string(data), "\n")
	if line < 1 || line > len(lines) {
		return ""
	}
	return strings.TrimSpace(lines[line-1])
}
