package main

import (
	"fmt"
	"sort"
	"strings"
)

func init() { registry["C02"] = checkC02 }

// The 18-path universe, ordered around the byte '/' (0x2f): '-' 0x2d, '.' 0x2e, '0' 0x30.
var universe18 = []string{
	"d", "d-x", "d.c", "d0", "d x", "ad", "D", "a+b", "a(b", "a_b", "é",
	"d/x", "d/y", "d/s/z", "d/s/t/u", "ad/x", "d x/f g", "d-x/x",
	// names that EXTEND a directory's name and sort after "<dir>/" ('_' 0x5f, 'd' 0x64 > '/' 0x2f)
	"d_old", "dd/x",
	// printf-like characters
	"p%sq/x",
	// a path longer than 255 bytes
	longPath,
}

// realizable: no member is a proper directory prefix of another.
func realizable(set []string) bool {
	for _, p := range set {
		for _, q := range set {
			if p != q && strings.HasPrefix(q, p+"/") {
				return false
			}
		}
	}
	return true
}

// subsetsUpTo enumerates all subsets of size 1..k (in order of size, then lexicographic index).
func subsetsUpTo(u []string, k int) [][]string {
	var out [][]string
	var rec func(start int, cur []string, size int)
	rec = func(start int, cur []string, size int) {
		if len(cur) == size {
			if realizable(cur) {
				out = append(out, append([]string{}, cur...))
			}
			return
		}
		for i := start; i < len(u); i++ {
			rec(i+1, append(cur, u[i]), size)
		}
	}
	for size := 1; size <= k; size++ {
		rec(0, nil, size)
	}
	return out
}

func topLevel(paths []string) []string {
	set := map[string]bool{}
	for _, p := range paths {
		if i := strings.IndexByte(p, '/'); i >= 0 {
			set[p[:i]] = true
		} else {
			set[p] = true
		}
	}
	var out []string
	for t := range set {
		out = append(out, t)
	}
	sort.Strings(out)
	return out
}

const identLine = "Test User <test@example.com> " + fixedNow + " +0000"

// judgeCommit applies the C02 oracle to one applied `commit -m msg` transition.
func judgeCommit(pre, post *Abs, msg string, tags []string) []Violation {
	var vs []Violation
	bad := func(oracle, f string, args ...interface{}) {
		vs = append(vs, Violation{Oracle: oracle, Command: "commit", Tags: tags, Detail: fmt.Sprintf(f, args...)})
	}
	// the current branch names the new commit; at most one commit object is new (with a
	// fixed clock an identical commit may already exist, e.g. made on another branch)
	H0 := pre.HeadRef
	id := post.Branches[H0]
	if !isHex40(id) || id == pre.Branches[H0] {
		bad("branch-advanced", "branch %q holds %q after a successful commit (before: %q)", H0, id, pre.Branches[H0])
		return vs
	}
	newCommits := 0
	for name, o := range post.Objects {
		if _, old := pre.Objects[name]; !old && o.Err == nil && o.Kind == "commit" {
			newCommits++
		}
	}
	_, existed := pre.Objects[id]
	if (existed && newCommits != 0) || (!existed && newCommits != 1) {
		bad("one-new-commit", "expected exactly one new commit object, found %d (tip existed before: %v)", newCommits, existed)
		return vs
	}
	if o := post.GoodObj(id); o == nil {
		bad("one-new-commit", "new commit object %s is missing, damaged or stored under a name that is not its SHA-1", id)
		return vs
	}
	c, err := post.Commit(id)
	if err != nil {
		bad("commit-decodes", "new commit %s: %v", id, err)
		return vs
	}
	H := pre.HeadRef
	if post.Branches[H] != id {
		bad("branch-advanced", "branch %q holds %q, expected the new commit %s", H, post.Branches[H], id)
	}
	if post.HeadRaw != pre.HeadRaw {
		bad("head-unchanged", "HEAD changed from %q to %q", pre.HeadRaw, post.HeadRaw)
	}
	for n, v := range pre.Branches {
		if n != H && post.Branches[n] != v {
			bad("other-branches-unchanged", "branch %q changed from %s to %q", n, v, post.Branches[n])
		}
	}
	for n := range post.Branches {
		if _, ok := pre.Branches[n]; !ok && n != H {
			bad("other-branches-unchanged", "branch %q appeared", n)
		}
	}
	// parents
	oldTip := pre.Branches[H]
	switch {
	case oldTip == "" && len(c.Parents) != 0:
		bad("parent-is-previous-tip", "first commit has parents %v", c.Parents)
	case oldTip != "" && (len(c.Parents) != 1 || c.Parents[0] != oldTip):
		bad("parent-is-previous-tip", "parents %v, expected [%s]", c.Parents, oldTip)
	}
	// snapshot == staged entries at that moment
	if pre.IndexErr != nil {
		return vs
	}
	staged := pre.IndexMap()
	snap, err := post.FlattenTree(c.Tree)
	if err != nil {
		bad("snapshot-equals-staged", "snapshot of the new commit cannot be read: %v", err)
	} else if d := diffStrMaps("snapshot", staged, snap, nil); d != "" {
		bad("snapshot-equals-staged", "%s", d)
	}
	// index and worktree untouched
	if d := diffStrMaps("index", staged, post.IndexMap(), nil); d != "" || post.IndexErr != nil {
		bad("index-unchanged", "commit changed the staging area: %s %v", d, post.IndexErr)
	}
	if d := diffByteMaps("worktree", pre.W, post.W, nil); d != "" {
		bad("worktree-unchanged", "commit changed the working tree: %s", d)
	}
	// identity and message
	name, email, _ := pre.Identity()
	wantPrefix := name + " <" + email + "> "
	if !strings.HasPrefix(c.Author, wantPrefix) || c.Author != c.Committer {
		bad("identity-recorded", "author %q committer %q, expected both to start with %q", c.Author, c.Committer, wantPrefix)
	}
	if c.Message != msg && c.Message != msg+"\n" {
		bad("message-recorded", "message %q, expected %q", c.Message, msg)
	}
	return vs
}

func commitMsg(st Step) (string, bool) {
	if st.Op == "run" && len(st.Args) == 3 && st.Args[0] == "commit" && (st.Args[1] == "-m" || st.Args[1] == "--message") {
		return st.Args[2], true
	}
	return "", false
}

func c02Trans(c *Ctx, pre *Node, st Step, res *Result, post *State) ([]Violation, bool) {
	msg, ok := commitMsg(st)
	if !ok {
		return nil, true
	}
	pa, qa := pre.Abs(), post.Abs()
	outs := Allowed(pa, st)
	if outs == nil {
		return nil, true
	}
	if res.Exit != 0 {
		if !outs[0].Refused {
			det := "commit of a staged difference failed" + outputTail(res)
			o := "commit-succeeds"
			if res.Panicked() {
				o = "commit-succeeds-panic"
			}
			return []Violation{{Oracle: o, Command: "commit", Tags: st.Tags, Detail: det}}, false
		}
		return nil, true
	}
	if outs[0].Refused {
		// owned by C07 (nothing to commit) / C20 (identity); do not explore behind it
		return nil, false
	}
	vs := judgeCommit(pa, qa, msg, st.Tags)
	// every blob of the snapshot holds the bytes the file had when it was last staged:
	// blob names are content hashes (fsck) and the staged id was computed from the bytes
	// at add time (C04); here: every blob of the new snapshot is present and intact.
	for _, p := range qa.Fsck() {
		if p.Class == "snapshot-complete" || p.Class == "branch-names-commit" {
			vs = append(vs, Violation{Oracle: "snapshot-complete", Command: "commit", Tags: st.Tags, Detail: p.Msg})
			break
		}
	}
	return vs, len(vs) == 0
}

func checkC02(e *RunEnv) *CheckResult {
	P := []string{"lib/x", "lib.go", "lib-old", "a b", "lib_z", "libs/y"}
	spec := &Spec{
		Seeds: []Seed{{"S0", seedS0()}, {"S1lib", append(seedS0(), Write("lib/x", v1("lib/x")), Write("lib/keep", v1("lib/keep")), Write("lib.go", v1("lib.go")), Run("add", "lib", "lib.go"), Run("commit", "-m", "c1"))}},
		Depth: e.depth(4, 7),
		Steps: func(n *Node) []Step {
			a := n.Abs()
			t := nameSetTags(indexPaths(a))
			t = append(t, stateTags(a)...)
			var steps []Step
			for _, p := range P {
				if d, ok := a.W[p]; ok {
					if string(d) != v2(p) {
						steps = append(steps, Write(p, v2(p)))
					}
					steps = append(steps, Delete(p))
				} else {
					steps = append(steps, Write(p, v1(p)))
				}
				steps = append(steps, Run("add", p).WithTags(t...), Run("rm", p).WithTags(t...), Run("restore", "--staged", p).WithTags(t...))
			}
			steps = append(steps, Run("add", "lib").WithTags(t...), Run("commit", "-m", "m1").WithTags(t...), Run("commit", "-m", "100% of m2 %s").WithTags(t...), Run("commit", "-m", "subject\ntree x\nparent y\nauthor z").WithTags(t...),
				Run("branch", "b").WithTags(t...), Run("switch", "b").WithTags(t...), Run("switch", "main").WithTags(t...), Run("reset", "--mixed", "HEAD@{1}").WithTags(t...))
			return steps
		},
		CheckTrans: c02Trans,
	}
	if err := e.B.BuildCLI(true, true); err != nil {
		harnessFatal("%v", err)
	}
	var sweep int
	res := runSpecWith(e, spec, func(x *Explorer) {
		// (A) name-set sweep: every realizable subset of the universe up to size k
		base := x.BuildState(seedS0())
		if base == nil {
			return
		}
		k := e.pick(3, 5)
		var cases []Case
		for _, set := range subsetsUpTo(universe18, k) {
			var steps []Step
			for _, p := range set {
				steps = append(steps, Write(p, v1(p)))
			}
			t := nameSetTags(set)
			steps = append(steps, Run(append([]string{"add"}, topLevel(set)...)...).WithTags(t...), Run("commit", "-m", "m").WithTags(t...))
			if len(set) >= 2 {
				// a second snapshot after one removal and one edit: nothing of the first may be carried over wrongly
				steps = append(steps, Run("rm", set[0]).WithTags(t...), Write(set[len(set)-1], v2(set[len(set)-1])), Run("add", set[len(set)-1]).WithTags(t...), Run("commit", "-m", "m2").WithTags(t...))
			}
			cases = append(cases, Case{Base: base, BaseName: "S0", BaseSeed: seedS0(), Steps: steps})
		}
		// one large snapshot: 60 entries in nested directories (sorting and buffering behave differently above small sizes)
		cases = append(cases, Case{Base: base, BaseName: "S0", BaseSeed: seedS0(), Steps: bigSnapshotSteps()})
		// one directory of 900 files (its tree exceeds 32 KiB, the index 64 KiB), names of 250 and 255 bytes,
		// two directories with identical content
		cases = append(cases, Case{Base: base, BaseName: "S0", BaseSeed: seedS0(), Steps: hugeDirSteps(900)})
		if e.Thorough() {
			cases = append(cases, Case{Base: base, BaseName: "S0", BaseSeed: seedS0(), Steps: hugeDirSteps(150)})
		}
		for _, st := range nestedTwinCases() {
			cases = append(cases, Case{Base: base, BaseName: "S0", BaseSeed: seedS0(), Steps: st})
		}
		// identity: every (local?, global?) x (name, e-mail) combination that is complete
		var idc []Case
		initOnly := x.BuildState([]Step{Run("init")})
		for m := 1; m < 16; m++ {
			var steps []Step
			if m&1 != 0 {
				steps = append(steps, Run("config", "user.name", "Local Name"))
			}
			if m&2 != 0 {
				steps = append(steps, Run("config", "--global", "user.name", "Global Name"))
			}
			if m&4 != 0 {
				steps = append(steps, Run("config", "user.email", "local@x.io"))
			}
			if m&8 != 0 {
				steps = append(steps, Run("config", "--global", "user.email", "global@x.io"))
			}
			if m&3 == 0 || m&12 == 0 || initOnly == nil {
				continue
			}
			steps = append(steps, Write("f", "f\n"), Run("add", "f"), Run("commit", "-m", "identity"))
			idc = append(idc, Case{Base: initOnly, BaseName: "init", BaseSeed: []Step{Run("init")}, Steps: steps})
		}
		if initOnly != nil {
			// the identity set in steps with another section in between, the global file defining a name as well
			for _, seq := range [][]Step{
				{Run("config", "--global", "user.name", "Global Name"), Run("config", "user.name", "Local Name"), Run("config", "core.editor", "vi"), Run("config", "user.email", "local@x.io")},
				{Run("config", "user.email", "local@x.io"), Run("config", "core.editor", "vi"), Run("config", "--global", "core.pager", "less"), Run("config", "--global", "user.name", "Global Name"), Run("config", "user.name", "Sammy Davis Jr.")},
			} {
				idc = append(idc, Case{Base: initOnly, BaseName: "init", BaseSeed: []Step{Run("init")}, Steps: append(append([]Step{}, seq...), Write("f", "f\n"), Run("add", "f"), Run("commit", "-m", "identity"))})
			}
		}
		sweep = x.RunCases(cases) + x.RunCases(idc)
	}, func(x *Explorer, cov map[string]interface{}) {
		cov["name_set_sweep_cases"] = sweep
		cov["name_set_universe"] = universe18
		cov["name_set_max_size"] = e.pick(3, 5)
		cov["states"] = x.States + sweep
	})
	return res
}

// nestedTwinCases: a nested directory that has the name of a top-level directory, each of the two changed while
// the other stays as it is; and pure removals beneath a directory that leave as many files as the directory
// has direct children (d/f, d/s/x, d/s/y minus d/s/y), or remove the last file of a nested directory.
func nestedTwinCases() [][]Step {
	base := []Step{Write("lib/a.txt", "lib a\n"), Write("src/lib/a.txt", "src lib a\n"), Write("src/main.go", "main\n"),
		Write("d/f", "f\n"), Write("d/s/x", "x\n"), Write("d/s/y", "y\n"), Write("d/t/only", "only\n"),
		// two sibling directories with different names and identical content (one tree id under two names)
		Write("tw1/p", "same\n"), Write("tw1/q", "q\n"), Write("tw2/p", "same\n"), Write("tw2/q", "q\n"),
		Run("add", "lib", "src", "d", "tw1", "tw2"), Run("commit", "-m", "base")}
	tails := [][]Step{
		{Write("src/lib/b.txt", "new in nested\n"), Run("add", "src"), Run("commit", "-m", "nested changed, top-level twin untouched")},
		{Write("lib/b.txt", "new in top\n"), Run("add", "lib"), Run("commit", "-m", "top-level changed, nested twin untouched")},
		{Run("rm", "d/s/y"), Run("commit", "-m", "one of two nested files removed")},
		{Run("rm", "d/t/only"), Run("commit", "-m", "nested directory emptied")},
		{Run("rm", "d/f"), Run("commit", "-m", "direct child removed"), Run("rm", "d/s"), Run("commit", "-m", "nested directory removed")},
		{Run("rm", "d/s/x"), Write("d/s/z", "z\n"), Run("add", "d/s/z"), Run("commit", "-m", "one removed, one added: same count")},
		// a pure rename inside a directory: same blob ids position by position, different names (seeded change C02-r8m1)
		{Write("d/s/x2", "x\n"), Run("rm", "d/s/x"), Run("add", "d/s/x2"), Run("commit", "-m", "renamed in place"), Run("reset", "--mixed", "HEAD@{1}"), Run("write-tree")},
		{Write("lib/b.txt", "lib a\n"), Run("rm", "lib/a.txt"), Run("add", "lib/b.txt"), Run("commit", "-m", "only file of a directory renamed")},
		// a directory renamed as a whole: the tree id stays, its name changes
		{Write("tw3/p", "same\n"), Write("tw3/q", "q\n"), Run("rm", "tw1"), Run("add", "tw3"), Run("commit", "-m", "directory renamed"), Run("reset", "--mixed", "HEAD@{1}")},
		// everything removed: the empty snapshot is a snapshot (its tree must be stored), and history goes on after it
		{Run("rm", "lib", "src", "d"), Run("commit", "-m", "emptied"), Write("again", "again\n"), Run("add", "again"), Run("commit", "-m", "after the empty snapshot"), Run("reset", "--mixed", "HEAD@{1}"), Run("write-tree")},
		// an ignore file written after the paths it names were staged: the snapshot is still what is staged
		{Write(".goitignore", "*.txt\nd/\n"), Write("src/main.go", "main v2\n"), Run("add", "src/main.go"), Run("commit", "-m", "tracked paths now match the ignore file")},
	}
	var out [][]Step
	for _, t := range tails {
		out = append(out, append(append([]Step{}, base...), t...))
	}
	return out
}

// hugeDirSteps: n files in one directory plus names at the length limit and two identical directories;
// commit, then remove one file, edit one, commit again.
func hugeDirSteps(n int) []Step {
	var steps []Step
	for i := 0; i < n; i++ {
		p := fmt.Sprintf("huge/file-%04d.txt", i)
		steps = append(steps, Write(p, v1(p)))
	}
	n255, n250 := strings.Repeat("n", 255), "huge/"+strings.Repeat("m", 250)
	deep := "deep"
	for i := 1; i <= 40; i++ {
		deep += fmt.Sprintf("/l%d", i)
	}
	steps = append(steps, Write(deep+"/leaf", "forty levels down\n"), Write(deep+"/leaf2", "second leaf\n"), Run("add", "deep"))
	steps = append(steps, Write(n255, "name of 255 bytes\n"), Write(n250, "name of 250 bytes\n"),
		Write("...", "a name of three dots\n"), Write("v1/....", "four dots\n"), Write("v1/.cfg/x", "inside a dot-named directory\n"),
		Write("v1/data/x", "same\n"), Write("v1/data/y", "same too\n"), Write("v2/data/x", "same\n"), Write("v2/data/y", "same too\n"),
		Run("add", "huge", n255, "v1", "v2", "..."), Run("commit", "-m", "huge directory"),
		Run("rm", "huge/file-0007.txt"), Write("huge/file-0500.txt", "edited\n"), Write("v2/data/x", "no longer the same\n"), Run("add", "huge/file-0500.txt", "v2"), Run("commit", "-m", "huge directory, second snapshot"))
	return steps
}

// bigSnapshotSteps: 60 files over 12 directories (two levels), staged and committed, then one file
// changed and committed again.
func bigSnapshotSteps() []Step {
	var steps []Step
	var tops []string
	for i := 0; i < 12; i++ {
		d := fmt.Sprintf("dir%02d", i)
		tops = append(tops, d)
		for j := 0; j < 4; j++ {
			p := fmt.Sprintf("%s/f%d", d, j)
			steps = append(steps, Write(p, v1(p)))
		}
		p := fmt.Sprintf("%s/sub/g", d)
		steps = append(steps, Write(p, v1(p)))
	}
	steps = append(steps, Run(append([]string{"add"}, tops...)...), Run("commit", "-m", "sixty entries"),
		Write("dir05/f2", v2("dir05/f2")), Run("add", "dir05/f2"), Run("commit", "-m", "one changed"))
	return steps
}
