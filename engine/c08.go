package main

import (
	"fmt"
	"strings"
)

func init() { registry["C08"] = checkC08 }

type resetArgs struct {
	soft, mixed, hard bool
	pos               string
	nargs             int
}

func parseResetArgs(args []string) resetArgs {
	var r resetArgs
	for _, x := range args {
		switch x {
		case "--soft":
			r.soft = true
		case "--mixed":
			r.mixed = true
		case "--hard":
			r.hard = true
		default:
			r.pos = x
			r.nargs++
		}
	}
	return r
}

// wellFormedPos parses exactly HEAD@{<decimal>}.
func wellFormedPos(s string) (int, bool) {
	if !strings.HasPrefix(s, "HEAD@{") || !strings.HasSuffix(s, "}") {
		return 0, false
	}
	d := s[len("HEAD@{") : len(s)-1]
	if d == "" || len(d) > 6 {
		return 0, false
	}
	n := 0
	for _, c := range d {
		if c < '0' || c > '9' {
			return 0, false
		}
		n = n*10 + int(c-'0')
	}
	return n, true
}

func c08Trans(c *Ctx, pre *Node, st Step, res *Result, post *State) ([]Violation, bool) {
	if st.Cmd() != "reset" {
		return nil, true
	}
	pa, qa := pre.Abs(), post.Abs()
	ra := parseResetArgs(st.Args[1:])
	var vs []Violation
	bad := func(oracle, f string, args ...interface{}) {
		if res.Panicked() {
			oracle += "-panic"
		}
		vs = append(vs, Violation{Oracle: oracle, Command: "reset", Tags: st.Tags, Detail: fmt.Sprintf(f, args...) + outputTail(res)})
	}
	mustRefuse := func(why string) ([]Violation, bool) {
		if res.Exit == 0 {
			bad("invalid-reset-refused", "reset with %s was accepted", why)
		} else if post.Key() != pre.State.Key() {
			bad("refused-unchanged", "reset with %s was refused but changed the repository", why)
		}
		return vs, len(vs) == 0
	}
	modes := 0
	for _, b := range []bool{ra.soft, ra.mixed, ra.hard} {
		if b {
			modes++
		}
	}
	n, ok := wellFormedPos(ra.pos)
	if ra.nargs != 1 || !ok {
		return mustRefuse("a malformed argument")
	}
	if ra.soft && ra.hard {
		return mustRefuse("two modes")
	}
	// the journal as reflog displays it in the pre-state, and as the independent reader sees it
	if _, has := pa.S.Goit("logs/HEAD"); !has {
		return mustRefuse("no journal")
	}
	rv := reflogOf(c, pre.State)
	if rv.res.Exit != 0 {
		return nil, false // C11's business
	}
	if n >= len(rv.entries) {
		return mustRefuse("a position out of range")
	}
	en := rv.entries[n]
	if en.ID7 == "" {
		return nil, false
	}
	if en.ID7 == "0000000" {
		return mustRefuse("a position that records no commit")
	}
	target := ""
	for id := range pa.Objects {
		if strings.HasPrefix(id, en.ID7) {
			if target != "" {
				return nil, true // ambiguous prefix: do not judge
			}
			target = id
		}
	}
	if target == "" {
		return nil, false
	}
	// the independent reader must agree on the position (else C11 owns the disagreement)
	if n < len(pa.LogHEAD) {
		if r := ParseReflogLine(pa.LogHEAD[len(pa.LogHEAD)-1-n]); r.OK && r.To != target {
			return nil, false
		}
	}
	snap, err := pa.Snapshot(target)
	if err != nil {
		return nil, false
	}
	// a snapshot that holds both "x" and "x/y" (committed from a staging area in which a file and the
	// directory it replaced were both still staged) cannot exist in a working tree; the statements do not say
	// what a reset to it means, so it is not judged and not explored further (see §7.2, indexConflict)
	for p := range snap {
		for i := 0; i < len(p); i++ {
			if p[i] == '/' {
				if _, both := snap[p[:i]]; both {
					return nil, false
				}
			}
		}
	}
	preI := pa.IndexMap()
	keepsUntracked := func() {
		for p, d := range pa.W {
			if _, t := preI[p]; t {
				continue
			}
			if _, t := snap[p]; t {
				continue
			}
			if got, ok := qa.W[p]; !ok || string(got) != string(d) {
				bad("hard-keeps-untracked", "never-tracked file %q was changed or removed", p)
				break
			}
		}
	}
	if ra.hard {
		// a never-tracked file stands where the snapshot needs a directory, or the other way round: the
		// request cannot be carried out without destroying it, and the statement does not say what happens
		// then; the only thing judged is that the never-tracked content survives
		for p := range pa.W {
			_, t1 := preI[p]
			_, t2 := snap[p]
			if t1 || t2 {
				continue
			}
			for q := range snap {
				if strings.HasPrefix(p, q+"/") || strings.HasPrefix(q, p+"/") {
					keepsUntracked()
					return vs, false
				}
			}
		}
	}
	if res.Exit != 0 {
		bad("valid-reset-applies", "reset %v to %s (shown by reflog at HEAD@{%d}) failed", st.Args[1:], en.ID7, n)
		// still judge what it left behind: a failed reset must not have half-moved things silently
		if post.Key() != pre.State.Key() {
			bad("refused-unchanged", "the failed reset changed the repository")
		}
		return vs, false
	}
	H := pa.HeadRef
	if qa.Branches[H] != target {
		bad("branch-moved-to-target", "branch %q holds %q, reflog showed %s at HEAD@{%d}", H, qa.Branches[H], target, n)
	}
	if qa.HeadRaw != pa.HeadRaw {
		bad("head-unchanged", "HEAD changed from %q to %q", pa.HeadRaw, qa.HeadRaw)
	}
	for b, v := range pa.Branches {
		if b != H && qa.Branches[b] != v {
			bad("other-branches-unchanged", "branch %q changed", b)
		}
	}
	if len(qa.Branches) != len(pa.Branches) {
		bad("other-branches-unchanged", "branch set changed: %v -> %v", keys(pa.Branches), keys(qa.Branches))
	}
	if ra.soft {
		if d := diffStrMaps("staging area", preI, qa.IndexMap(), nil); d != "" || qa.IndexErr != nil {
			bad("soft-keeps-index", "%s %v", d, qa.IndexErr)
		}
		if d := diffByteMaps("worktree", pa.W, qa.W, nil); d != "" {
			bad("soft-keeps-worktree", "%s", d)
		}
		return vs, len(vs) == 0
	}
	if d := diffStrMaps("staging area", snap, qa.IndexMap(), nil); d != "" || qa.IndexErr != nil || len(qa.Index) != len(snap) {
		bad("index-equals-target", "%s %v", d, qa.IndexErr)
	}
	if !ra.hard {
		if d := diffByteMaps("worktree", pa.W, qa.W, nil); d != "" {
			bad("mixed-keeps-worktree", "%s", d)
		}
		return vs, len(vs) == 0
	}
	// --hard: every file of the snapshot exists with the committed bytes; never-tracked files untouched
	for p, id := range snap {
		b := pa.GoodObj(id)
		if b == nil {
			continue
		}
		if got, ok := qa.W[p]; !ok {
			bad("hard-restores-worktree", "file %q of the target snapshot does not exist after reset --hard", p)
			break
		} else if string(got) != string(b.Body) {
			bad("hard-restores-worktree", "file %q holds %q, committed %q", p, trunc(string(got), 24), trunc(string(b.Body), 24))
			break
		}
	}
	keepsUntracked()
	return vs, len(vs) == 0
}

func checkC08(e *RunEnv) *CheckResult {
	malformed := []string{"HEAD@{}", "HEAD@{x}", "HEAD@{-1}", "HEAD{1}", "head@{1}", "HEAD@{1}x", "xHEAD@{1}", "HEAD@{1}HEAD@{2}", "HEAD@{ 1}"}
	modes := [][]string{{"--soft"}, {"--mixed"}, {"--hard"}, {}, {"--soft", "--hard"}}
	spec := &Spec{
		Seeds: []Seed{{"S2", seedS2()}, {"S3", seedS3()}, {"chain12", seedChain(12)}, {"S4", seedS4()},
			{"percent-dir", append(seedS1(), Write("p%sq/x", "x v1\n"), Write("é/y z", "y\n"), Run("add", "p%sq", "é"), Run("commit", "-m", "c2"), Write("p%sq/x", "x v2\n"), Run("add", "p%sq"), Run("commit", "-m", "c3"))},
			{"new-dir-later", append(seedS1(), Write("d2/p", "p\n"), Write("d2/q/r", "r\n"), Run("add", "d2"), Run("commit", "-m", "c2 introduces d2"), Write("d2/never-tracked", "nt\n"), Write("d2/q/never-tracked", "nt\n"))},
			{"deep-dir", append(seedS1(), Write("lib/core/util/a.txt", "a1\n"), Write("lib/z.txt", "z1\n"), Write("lib/empty", ""), Write("lib/core/__init__", ""), Write("empty-top", ""), Run("add", "lib", "empty-top"), Run("commit", "-m", "c2"), Write("lib/core/util/a.txt", "a2\n"), Run("add", "lib"), Run("commit", "-m", "c3"))},
			// sibling directories whose names extend one another and sort before "<dir>/" ("lib-old/", "lib.d/" < "lib/"):
			// a restore of lib/ after the others were created must still create lib/ (seeded change C08-r8m1)
			{"sibling-dirs", append(seedS1(), Write("lib-old/x.txt", "x1\n"), Write("lib.d/w", "w1\n"), Write("lib/y.txt", "y1\n"), Write("lib/zz/z", "z1\n"), Run("add", "lib-old", "lib.d", "lib"), Run("commit", "-m", "c2"), Write("lib/y.txt", "y2\n"), Run("add", "lib"), Run("commit", "-m", "c3"))}},
		Depth: e.depth(3, 5),
		Steps: func(n *Node) []Step {
			a := n.Abs()
			t := unionTags(stateTags(a), journalTags(a))
			// worktree features (inputs of --hard)
			I := a.IndexMap()
			for p := range I {
				if _, ok := a.W[p]; !ok {
					t = unionTags(t, []string{"worktree-has-deleted-tracked"})
					if i := strings.LastIndexByte(p, '/'); i >= 0 && !hasDirOnDisk(a, p[:i]) {
						t = unionTags(t, []string{"dir-missing-on-disk"})
					}
				}
			}
			var steps []Step
			pos := journalPositions(a)
			long := len(pos) > 11
			for i, pt := range pos {
				if long && i > 1 && i < 9 {
					continue // long journals: positions 0,1 and 9..len
				}
				for _, m := range modes {
					args := append(append([]string{"reset"}, m...), fmt.Sprintf("HEAD@{%d}", i))
					steps = append(steps, Run(args...).WithTags(unionTags(t, pt, []string{"mode:" + strings.Join(m, "+")})...))
				}
			}
			// leading zeros: still a decimal number
			for _, z := range []string{"HEAD@{00}", "HEAD@{01}", "HEAD@{010}", "HEAD@{08}"} {
				steps = append(steps, Run("reset", "--soft", z).WithTags(unionTags(t, []string{"mode:--soft", "leading-zeros"})...))
			}
			if !long {
				// flags after the argument, and a flag given twice
				steps = append(steps, Run("reset", "HEAD@{1}", "--hard").WithTags(unionTags(t, []string{"mode:--hard"})...), Run("reset", "HEAD@{0}", "--soft").WithTags(unionTags(t, []string{"mode:--soft"})...),
					Run("reset", "--mixed", "--mixed", "HEAD@{1}").WithTags(unionTags(t, []string{"mode:--mixed"})...))
				for _, m := range malformed {
					steps = append(steps, Run("reset", "--mixed", m).WithTags(unionTags(t, []string{"arg-malformed"})...))
				}
				steps = append(steps, Run("reset", "--soft").WithTags(unionTags(t, []string{"arg-malformed"})...),
					Run("reset", "--soft", "HEAD@{0}", "HEAD@{1}").WithTags(unionTags(t, []string{"arg-malformed"})...))
				content := fmt.Sprintf("edit %d\n", len(a.Objects))
				steps = append(steps, Seq(Write("a", content), Run("add", "a"), Run("commit", "-m", "m")), Run("switch", "b"), Run("switch", "-c", "c"))
				// perturbations
				if d, ok := a.W["a"]; ok && string(d) != "dirty\n" {
					steps = append(steps, Write("a", "dirty\n"))
				}
				if _, ok := a.W["a"]; ok {
					steps = append(steps, Delete("a"))
				}
				if _, ok := a.W["empty-top"]; ok {
					steps = append(steps, Delete("empty-top"))
				}
				if hasDirOnDisk(a, "d") {
					steps = append(steps, Rmdir("d"))
				}
				if hasDirOnDisk(a, "lib") {
					steps = append(steps, Rmdir("lib"))
				}
				// a directory and a sibling whose name extends it are both gone: the restore creates "lib-old/" first, then "lib/"
				if hasDirOnDisk(a, "lib") && hasDirOnDisk(a, "lib-old") {
					steps = append(steps, Seq(Rmdir("lib-old"), Rmdir("lib")))
				}
				// the tracked file a replaced by a directory that holds a never-tracked file
				if _, ok := a.W["a"]; ok {
					steps = append(steps, Write("a/u", "never tracked, inside a directory named like a tracked file\n"))
				}
				// a never-tracked file inside each tracked directory (the directory may be absent from the target commit)
				for _, d := range []string{"d", "lib", "p%sq", "d2"} {
					if _, ok := a.W[d+"/never-tracked"]; !ok && hasDirOnDisk(a, d) {
						steps = append(steps, Write(d+"/never-tracked", "never tracked\n"))
					}
				}
				// a file that some commit contains, that is on disk but not tracked right now (left behind by an earlier
				// reset to a commit without it), edited: a later reset --hard to a commit with it must restore the bytes
				for _, id := range commitPool(a) {
					if snap, err := a.Snapshot(id); err == nil {
						for p := range snap {
							if _, tracked := I[p]; tracked {
								continue
							}
							if d, onDisk := a.W[p]; onDisk && string(d) != "scribble\n" {
								steps = append(steps, Write(p, "scribble\n"))
							}
						}
					}
				}
				if _, ok := a.W["u"]; !ok {
					steps = append(steps, Write("u", "untracked\n"), Write("a.tmp", "a never-tracked file next to a\n"))
				}
				// a staged change: the staging area differs from every commit
				steps = append(steps, Run("add", "a"))
			}
			return steps
		},
		CheckTrans: c08Trans,
	}
	var lim int
	return runSpecWith(e, spec, func(x *Explorer) {
		// 200 tracked files restored under a limit of 64 open files: a command that keeps what it wrote open runs dry
		base := x.BuildState(seedS0())
		if base == nil {
			return
		}
		steps := hugeDirSteps(200)
		steps = append(steps, Write("huge/file-0003.txt", "dirty\n"), Delete("huge/file-0100.txt"), Rmdir("v1"),
			Run("reset", "--hard", "HEAD@{0}").WithEnv("VERIF_NOFILE=64").WithTags("mode:--hard", "open-file-limit"), Run("reset", "--hard", "HEAD@{1}").WithEnv("VERIF_NOFILE=64").WithTags("mode:--hard", "open-file-limit"))
		lim = x.RunCases([]Case{{Base: base, BaseName: "S0", BaseSeed: seedS0(), Steps: steps}})
	}, func(x *Explorer, cov map[string]interface{}) {
		cov["open_file_limit_cases"] = lim
	})
}
