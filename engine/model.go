package main

// Reference model: a boring relation over maps, one function per command
// (DESIGN.md Appendix C). Allowed() returns the SET of outcomes the property
// statements permit for a command in a state; nil means "the model does not define
// this invocation" and the caller must not judge it.

import (
	"path/filepath"
	"sort"
	"strconv"
	"strings"
	"sync"
	"sync/atomic"
)

type Out struct {
	Refused bool
	I       map[string]string // staged path -> blob id
	W       map[string][]byte // worktree files outside .goit
	B       map[string]string // branch -> commit id
	H       string            // branch HEAD names
	// NewCommit: the command must create exactly one commit and B[H] must be its id.
	NewCommit bool
	// WFree lists worktree paths whose presence/content is left open by the statements.
	WFree map[string]bool
	Note  string
	// ExitFree: the statements fix the resulting state but not the exit status
	// (e.g. the same path named twice).
	ExitFree bool
}

// argsOverlap reports whether one cleaned argument equals or contains another.
func argsOverlap(args []string) bool {
	for i := range args {
		for j := range args {
			if i != j {
				x, y := cleanArg(args[i]), cleanArg(args[j])
				if x == y || isUnder(y, x) {
					return true
				}
			}
		}
	}
	return false
}

type tri int

const (
	no tri = iota
	yes
	unknown
)

// Ignore rules, judged only where the statement is unambiguous: a `name/` line
// excludes everything beneath the top-level directory `name`; a `*.ext` line excludes
// files whose name ends in `.ext` at any depth. Everything inside .goit/ is metadata.
type IgnoreRules struct {
	nested []string // directory entries given as a path of several plain components
	dirs   []string
	exts   []string
	other  []string
}

func ParseIgnore(data []byte) *IgnoreRules {
	r := &IgnoreRules{}
	for _, l := range strings.Split(string(data), "\n") {
		l = strings.TrimSuffix(l, "\r") // a .goitignore written with CRLF line ends
		if l == "" {
			continue
		}
		switch {
		case strings.HasSuffix(l, "/") && !strings.ContainsAny(strings.TrimSuffix(l, "/"), "/*?[\\"):
			r.dirs = append(r.dirs, strings.TrimSuffix(l, "/"))
		case strings.HasSuffix(l, "/") && !strings.HasPrefix(l, "/") && !strings.ContainsAny(l, "*?[\\") && !strings.Contains(l, "//"):
			r.nested = append(r.nested, strings.TrimSuffix(l, "/"))
		case strings.HasPrefix(l, "*.") && !strings.ContainsAny(l[2:], "/*?[\\"):
			r.exts = append(r.exts, l[1:])
		default:
			r.other = append(r.other, l)
		}
	}
	return r
}

func (r *IgnoreRules) Ignored(p string) tri {
	if p == ".goit" || strings.HasPrefix(p, ".goit/") {
		return yes
	}
	if r == nil {
		return no
	}
	comps := strings.Split(p, "/")
	base := comps[len(comps)-1]
	dirComps := comps[:len(comps)-1]
	res := no
	for _, d := range r.dirs {
		if strings.HasPrefix(p, d+"/") {
			return yes
		}
		// the same directory name deeper in the tree: whether "name/" reaches it is not decided by the statement
		for i, c := range dirComps {
			if i > 0 && c == d {
				res = unknown
			}
		}
	}
	for _, d := range r.nested {
		if strings.HasPrefix(p, d+"/") {
			return yes
		}
		if strings.Contains(p, "/"+d+"/") {
			res = unknown
		}
	}
	for _, e := range r.exts {
		if strings.HasSuffix(base, e) {
			return yes
		}
		// a DIRECTORY whose name carries the extension: the statement speaks of files only
		for _, c := range dirComps {
			if strings.HasSuffix(c, e) {
				res = unknown
			}
		}
	}
	if len(r.other) > 0 {
		return unknown
	}
	return res
}

func (a *Abs) IgnoreRules() *IgnoreRules {
	if d, ok := a.W[".goitignore"]; ok {
		return ParseIgnore(d)
	}
	return nil
}

// Model view of a state -------------------------------------------------------------

func copyI(m map[string]string) map[string]string {
	n := make(map[string]string, len(m))
	for k, v := range m {
		n[k] = v
	}
	return n
}

func copyW(m map[string][]byte) map[string][]byte {
	n := make(map[string][]byte, len(m))
	for k, v := range m {
		n[k] = v
	}
	return n
}

func (a *Abs) base() Out {
	return Out{I: a.IndexMap(), W: copyW(a.W), B: copyI(a.Branches), H: a.HeadRef}
}

func (a *Abs) refused() Out {
	o := a.base()
	o.Refused = true
	return o
}

func (a *Abs) Identity() (name, email string, ok bool) {
	get := func(k string) (string, bool) {
		if v, ok := a.Cl["user"][k]; ok {
			return v, true
		}
		v, ok := a.Cg["user"][k]
		return v, ok
	}
	n, ok1 := get("name")
	e, ok2 := get("email")
	return n, e, ok1 && ok2
}

// cleanArg mirrors what a user means by a path argument given at the repository
// root: lexical cleaning only.
func cleanArg(arg string) string {
	// "@ROOT@" stands for the absolute path of the working tree (expanded by the sandbox, whose
	// working tree is always a directory named "root")
	if arg == "@ROOT@" {
		return "."
	}
	arg = strings.TrimPrefix(arg, "@ROOT@/")
	c := filepath.ToSlash(filepath.Clean(arg))
	if c == "../root" {
		return "."
	}
	return strings.TrimPrefix(c, "../root/")
}

func isUnder(p, dir string) bool {
	return dir == "." || strings.HasPrefix(p, dir+"/")
}

func hasDirOnDisk(a *Abs, d string) bool {
	if d == "." {
		return true
	}
	if a.S.Dirs["root/"+d] {
		return true
	}
	for p := range a.W {
		if strings.HasPrefix(p, d+"/") {
			return true
		}
	}
	return false
}

func plainBranchName(n string) bool {
	if n == "-" {
		return true // a lone dash is an argument, not a flag, and Goit takes it as a name
	}
	if n == "" || strings.HasPrefix(n, ".") || strings.HasPrefix(n, "-") {
		return false
	}
	for _, c := range n {
		if !(c >= 'a' && c <= 'z' || c >= 'A' && c <= 'Z' || c >= '0' && c <= '9' || c == '.' || c == '_' || c == '-') {
			return false
		}
	}
	return true
}

// Allowed returns the permitted outcomes of a command, or nil when undefined.
// indexConflict: the staging area holds both "x" and "x/y" (a directory replaced by a file
// and staged while the old entries beneath it stay staged). The statements do not say what
// the commands mean on such a staging area; transitions from it are not judged by the model
// (the connectivity invariants still are).
func indexConflict(a *Abs) bool {
	for _, e := range a.Index {
		for i := 0; i < len(e.Path); i++ {
			if e.Path[i] == '/' {
				if _, ok := a.IndexMap()[e.Path[:i]]; ok {
					return true
				}
			}
		}
	}
	return false
}

// snapshotConflict: the HEAD snapshot (committed from such a staging area) holds both "x" and "x/y".
func snapshotConflict(a *Abs) bool {
	tip := a.Tip()
	if tip == "" {
		return false
	}
	snap, err := a.Snapshot(tip)
	if err != nil {
		return false
	}
	for p := range snap {
		for i := 0; i < len(p); i++ {
			if p[i] == '/' {
				if _, ok := snap[p[:i]]; ok {
					return true
				}
			}
		}
	}
	return false
}

// modelVerdicts counts, per command, how often the model had an opinion ("judged") and how often it
// declined ("open": conflicting staging area, flags or argument shapes it does not define). The counts
// go into the evidence so that a check whose model declines most of the time is visible as such.
var modelVerdicts sync.Map // "<cmd>:judged|open" -> *int64

func countVerdict(cmd string, judged bool) {
	k := cmd + ":open"
	if judged {
		k = cmd + ":judged"
	}
	v, _ := modelVerdicts.LoadOrStore(k, new(int64))
	atomic.AddInt64(v.(*int64), 1)
}

func Allowed(a *Abs, st Step) []Out {
	if st.Op != "run" || len(st.Args) == 0 {
		return nil
	}
	outs := allowed(a, st)
	countVerdict(st.Args[0], outs != nil)
	return outs
}

func allowed(a *Abs, st Step) []Out {
	if indexConflict(a) || snapshotConflict(a) {
		return nil
	}
	args := st.Args[1:]
	switch st.Args[0] {
	case "add":
		return modelAdd(a, args)
	case "rm":
		return modelRm(a, args)
	case "commit":
		return modelCommit(a, args)
	case "branch":
		return modelBranch(a, args)
	case "switch":
		return modelSwitch(a, args)
	case "update-ref":
		return modelUpdateRef(a, args)
	case "restore":
		return modelRestore(a, args)
	case "status", "log", "reflog", "ls-files", "rev-parse", "cat-file", "hash-object", "help", "version":
		o := a.base()
		return []Out{o, a.refused()}
	case "write-tree":
		return []Out{a.base()}
	}
	return nil
}

func hasFlagLike(args []string) bool {
	for _, x := range args {
		if strings.HasPrefix(x, "-") && x != "-" {
			return true
		}
	}
	return false
}

func modelAdd(a *Abs, args []string) []Out {
	if hasFlagLike(args) {
		return nil
	}
	if len(args) == 0 {
		return []Out{a.refused()}
	}
	for _, arg := range args {
		if arg == "" {
			return []Out{a.refused()} // the empty string names nothing
		}
	}
	ign := a.IgnoreRules()
	I := a.IndexMap()
	// validation: every argument must exist on disk or be a tracked file
	alt := false // a deleted tracked directory was named
	for _, arg := range args {
		c := cleanArg(arg)
		if strings.HasPrefix(c, "../") || c == ".." || filepath.IsAbs(arg) {
			return nil
		}
		_, isFile := a.W[c]
		if c == ".goit" || strings.HasPrefix(c, ".goit/") {
			continue
		}
		if isFile || hasDirOnDisk(a, c) {
			continue
		}
		if _, tracked := I[c]; tracked {
			continue
		}
		trackedBeneath := false
		for p := range I {
			if isUnder(p, c) {
				trackedBeneath = true
			}
		}
		if trackedBeneath {
			alt = true
			continue
		}
		return []Out{a.refused()}
	}
	o := a.base()
	free := map[string]bool{}
	for _, arg := range args {
		c := cleanArg(arg)
		if ign.Ignored(c) == yes {
			continue
		}
		if data, isFile := a.W[c]; isFile {
			if ign.Ignored(c) == unknown {
				free[c] = true
				continue
			}
			o.I[c] = BlobID(data)
			continue
		}
		if hasDirOnDisk(a, c) {
			for p, data := range a.W {
				if !isUnder(p, c) {
					continue
				}
				switch ign.Ignored(p) {
				case yes:
				case unknown:
					free[p] = true
				default:
					o.I[p] = BlobID(data)
				}
			}
			continue
		}
		if _, tracked := I[c]; tracked {
			delete(o.I, c)
			continue
		}
		// deleted tracked directory
		for p := range I {
			if isUnder(p, c) {
				delete(o.I, p)
			}
		}
	}
	o.WFree = free // (re-used: index paths whose staging is undecided by the ignore rules)
	o.ExitFree = argsOverlap(args)
	_ = alt // a deleted tracked directory is a tracked directory (C06): its entries are unstaged, refusal is not an option
	return []Out{o}
}

func modelRm(a *Abs, args []string) []Out {
	var paths []string
	for _, x := range args {
		if x == "-r" || x == "--rec" {
			continue
		}
		if strings.HasPrefix(x, "-") {
			return nil
		}
		paths = append(paths, x)
	}
	if len(paths) == 0 {
		return []Out{a.base(), a.refused()}
	}
	I := a.IndexMap()
	for _, arg := range paths {
		if arg == "" {
			return []Out{a.refused()} // the empty string names nothing
		}
	}
	for _, arg := range paths {
		c := cleanArg(arg)
		if strings.HasPrefix(c, "../") || c == ".." || filepath.IsAbs(arg) {
			return nil
		}
		_, tracked := I[c]
		beneath := false
		for p := range I {
			if isUnder(p, c) {
				beneath = true
			}
		}
		if !tracked && !beneath {
			return []Out{a.refused()}
		}
	}
	o := a.base()
	for _, arg := range paths {
		c := cleanArg(arg)
		if _, tracked := I[c]; tracked {
			delete(o.I, c)
			delete(o.W, c)
			continue
		}
		for p := range I {
			if isUnder(p, c) {
				delete(o.I, p)
				delete(o.W, p)
			}
		}
	}
	o.ExitFree = argsOverlap(paths)
	return []Out{o}
}

func modelCommit(a *Abs, args []string) []Out {
	if len(args) != 2 || (args[0] != "-m" && args[0] != "--message") {
		return nil
	}
	if _, _, ok := a.Identity(); !ok {
		return []Out{a.refused()}
	}
	I := a.IndexMap()
	tip := a.Tip()
	if len(a.Branches) == 0 {
		if len(I) == 0 {
			return []Out{a.refused()}
		}
	} else {
		if tip == "" {
			return nil // HEAD names a missing branch while others exist: not produced by Goit
		}
		snap, err := a.Snapshot(tip)
		if err != nil {
			return nil
		}
		if mapsEqual(snap, I) {
			return []Out{a.refused()}
		}
	}
	o := a.base()
	o.NewCommit = true
	return []Out{o}
}

func mapsEqual(x, y map[string]string) bool {
	if len(x) != len(y) {
		return false
	}
	for k, v := range x {
		if y[k] != v {
			return false
		}
	}
	return true
}

func modelBranch(a *Abs, args []string) []Out {
	tip := a.Tip()
	unborn := tip == ""
	switch {
	case len(args) == 1 && !strings.HasPrefix(args[0], "-"):
		n := args[0]
		if _, ex := a.Branches[n]; ex || unborn {
			return []Out{a.refused()}
		}
		if !plainBranchName(n) {
			o := a.base()
			o.B[n] = tip
			if strings.ContainsAny(n, "/\\") || n == "." || n == ".." {
				return []Out{a.refused()}
			}
			return []Out{a.refused(), o}
		}
		o := a.base()
		o.B[n] = tip
		return []Out{o}
	case len(args) == 2 && (args[0] == "-d" || args[0] == "--delete"):
		n := args[1]
		if _, ex := a.Branches[n]; !ex || n == a.HeadRef {
			return []Out{a.refused()}
		}
		o := a.base()
		delete(o.B, n)
		return []Out{o}
	case len(args) == 2 && (args[0] == "-r" || args[0] == "--rename"):
		n := args[1]
		if _, ex := a.Branches[n]; ex || unborn {
			return []Out{a.refused()}
		}
		o := a.base()
		delete(o.B, a.HeadRef)
		o.B[n] = tip
		o.H = n
		if !plainBranchName(n) {
			if strings.ContainsAny(n, "/\\") || n == "." || n == ".." {
				return []Out{a.refused()}
			}
			return []Out{a.refused(), o}
		}
		return []Out{o}
	case len(args) == 1 && (args[0] == "-l" || args[0] == "--list"):
		return []Out{a.base()}
	}
	return nil
}

func modelSwitch(a *Abs, args []string) []Out {
	tip := a.Tip()
	switch {
	case len(args) == 1 && (!strings.HasPrefix(args[0], "-") || args[0] == "-"):
		n := args[0]
		if _, ex := a.Branches[n]; !ex {
			return []Out{a.refused()}
		}
		o := a.base()
		o.H = n
		return []Out{o}
	case len(args) == 2 && (args[0] == "-c" || args[0] == "--create"):
		n := args[1]
		if _, ex := a.Branches[n]; ex || tip == "" {
			return []Out{a.refused()}
		}
		o := a.base()
		o.B[n] = tip
		o.H = n
		if !plainBranchName(n) {
			if strings.ContainsAny(n, "/\\") || n == "." || n == ".." {
				return []Out{a.refused()}
			}
			return []Out{a.refused(), o}
		}
		return []Out{o}
	}
	return nil
}

func modelUpdateRef(a *Abs, args []string) []Out {
	if len(args) != 2 {
		return []Out{a.refused()}
	}
	ref, id := args[0], args[1]
	if !strings.HasPrefix(ref, "refs/heads/") {
		return []Out{a.refused()}
	}
	n := ref[len("refs/heads/"):]
	if _, ex := a.Branches[n]; !ex || !isHex40(id) {
		return []Out{a.refused()}
	}
	o := a.GoodObj(id)
	if o == nil || o.Kind != "commit" {
		return []Out{a.refused()}
	}
	out := a.base()
	out.B[n] = id
	return []Out{out}
}

func modelRestore(a *Abs, args []string) []Out {
	staged := false
	var paths []string
	for _, x := range args {
		if x == "--staged" {
			staged = true
			continue
		}
		if strings.HasPrefix(x, "-") {
			return nil
		}
		paths = append(paths, x)
	}
	if len(paths) == 0 {
		return []Out{a.refused()}
	}
	I := a.IndexMap()
	for _, arg := range paths {
		if arg == "" {
			return []Out{a.refused()} // the empty string names nothing
		}
	}
	for _, arg := range paths {
		c := cleanArg(arg)
		if strings.HasPrefix(c, "../") || c == ".." || filepath.IsAbs(arg) {
			return nil
		}
	}
	if !staged {
		for _, arg := range paths {
			c := cleanArg(arg)
			_, tracked := I[c]
			beneath := false
			for p := range I {
				if isUnder(p, c) {
					beneath = true
				}
			}
			if !tracked && !beneath {
				// valid arguments before it may or may not have been restored already;
				// the statement only says the path is refused
				o := a.refused()
				o.Note = "partial-ok"
				return []Out{o}
			}
		}
		o := a.base()
		var restored []string
		for _, arg := range paths {
			c := cleanArg(arg)
			if id, tracked := I[c]; tracked {
				if b := a.GoodObj(id); b != nil {
					o.W[c] = b.Body
					restored = append(restored, c)
				}
				continue
			}
			for p, id := range I {
				if isUnder(p, c) {
					if b := a.GoodObj(id); b != nil {
						o.W[p] = b.Body
						restored = append(restored, p)
					}
				}
			}
		}
		// a staging area that holds both "x" and "x/y" (a directory replaced by a file and staged
		// while the old entries beneath it stay staged) cannot be materialised: not judged
		for _, p := range restored {
			for q := range o.W {
				if q != p && (strings.HasPrefix(q, p+"/") || strings.HasPrefix(p, q+"/")) {
					return nil
				}
			}
		}
		return []Out{o}
	}
	tip := a.Tip()
	if tip == "" {
		return []Out{a.refused()}
	}
	T, err := a.Snapshot(tip)
	if err != nil {
		return nil
	}
	for _, arg := range paths {
		c := cleanArg(arg)
		known := false
		for p := range I {
			if p == c || isUnder(p, c) {
				known = true
			}
		}
		for p := range T {
			if p == c || isUnder(p, c) {
				known = true
			}
		}
		if !known {
			o := a.refused()
			o.Note = "partial-ok"
			return []Out{o}
		}
	}
	o := a.base()
	for _, arg := range paths {
		c := cleanArg(arg)
		set := map[string]bool{}
		for p := range I {
			if p == c || isUnder(p, c) {
				set[p] = true
			}
		}
		for p := range T {
			if p == c || isUnder(p, c) {
				set[p] = true
			}
		}
		for p := range set {
			if id, ok := T[p]; ok {
				o.I[p] = id
			} else {
				delete(o.I, p)
			}
		}
	}
	// exit status of a no-op restore --staged is unspecified: the refused outcome is
	// allowed as well when nothing would change
	if mapsEqual(o.I, I) {
		return []Out{o, a.refused()}
	}
	return []Out{o}
}

// Comparison ------------------------------------------------------------------------

type Components struct{ I, W, B, H bool }

// Matches reports whether post equals outcome o on the selected components; when it
// does not, why names the first difference.
func (o *Out) Matches(pre, post *Abs, res *Result, comp Components) (bool, string) {
	if !o.ExitFree && o.Refused != (res.Exit != 0) {
		if o.Refused {
			return false, "expected refusal (non-zero exit), got exit 0"
		}
		return false, "expected success, got exit " + strconv.Itoa(res.Exit)
	}
	if comp.I {
		if post.IndexErr != nil {
			return false, "index unreadable: " + post.IndexErr.Error()
		}
		got := post.IndexMap()
		if len(got) != len(post.Index) {
			return false, "index has duplicate paths"
		}
		if d := diffStrMaps("index", o.I, got, o.WFree); d != "" {
			return false, d
		}
	}
	if comp.W {
		if d := diffByteMaps("worktree", o.W, post.W, nil); d != "" {
			return false, d
		}
	}
	if comp.B {
		exp := o.B
		if o.NewCommit {
			exp = copyI(o.B)
			delete(exp, o.H)
			got := copyI(post.Branches)
			delete(got, o.H)
			if d := diffStrMaps("branches", exp, got, nil); d != "" {
				return false, d
			}
		} else if d := diffStrMaps("branches", exp, post.Branches, nil); d != "" {
			return false, d
		}
	}
	if comp.H {
		if post.HeadRef != o.H || post.HeadRaw != "ref: refs/heads/"+o.H {
			return false, "HEAD: expected branch " + strconv.Quote(o.H) + ", file holds " + strconv.Quote(post.HeadRaw)
		}
	}
	return true, ""
}

func diffStrMaps(what string, exp, got map[string]string, free map[string]bool) string {
	var ks []string
	seen := map[string]bool{}
	for k := range exp {
		ks = append(ks, k)
		seen[k] = true
	}
	for k := range got {
		if !seen[k] {
			ks = append(ks, k)
		}
	}
	sort.Strings(ks)
	for _, k := range ks {
		if free[k] {
			continue
		}
		e, eok := exp[k]
		g, gok := got[k]
		switch {
		case eok && !gok:
			return what + ": " + strconv.Quote(k) + " missing (expected " + trunc(e, 12) + ")"
		case !eok && gok:
			return what + ": unexpected " + strconv.Quote(k) + " = " + trunc(g, 12)
		case e != g:
			return what + ": " + strconv.Quote(k) + " = " + trunc(g, 12) + ", expected " + trunc(e, 12)
		}
	}
	return ""
}

func diffByteMaps(what string, exp, got map[string][]byte, free map[string]bool) string {
	var ks []string
	seen := map[string]bool{}
	for k := range exp {
		ks = append(ks, k)
		seen[k] = true
	}
	for k := range got {
		if !seen[k] {
			ks = append(ks, k)
		}
	}
	sort.Strings(ks)
	for _, k := range ks {
		if free[k] {
			continue
		}
		e, eok := exp[k]
		g, gok := got[k]
		switch {
		case eok && !gok:
			return what + ": file " + strconv.Quote(k) + " is gone"
		case !eok && gok:
			return what + ": unexpected file " + strconv.Quote(k)
		case string(e) != string(g):
			return what + ": file " + strconv.Quote(k) + " holds " + strconv.Quote(trunc(string(g), 24)) + ", expected " + strconv.Quote(trunc(string(e), 24))
		}
	}
	return ""
}

// MatchAny judges a transition against a set of allowed outcomes.
func MatchAny(outs []Out, pre, post *Abs, res *Result, comp Components) (bool, string) {
	var whys []string
	for i := range outs {
		ok, why := outs[i].Matches(pre, post, res, comp)
		if ok {
			return true, ""
		}
		whys = append(whys, why)
	}
	return false, strings.Join(whys, " | ")
}
