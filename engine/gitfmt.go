package main

// gitfmt: INDEPENDENT readers/writers of the on-disk formats (written from the
// documented layouts; imports nothing from the repository). This is the trusted base
// of every oracle.

import (
	"bytes"
	"compress/zlib"
	"crypto/sha1"
	"encoding/binary"
	"encoding/hex"
	"fmt"
	"io"
	"regexp"
	"sort"
	"strconv"
	"strings"
	"sync"
)

type Obj struct {
	Kind string
	Body []byte
	ID   string // SHA-1 of header+body (computed, not the file name)
	Err  error  // decode error (zlib / header / length)
}

func ObjID(kind string, body []byte) string {
	h := sha1.New()
	fmt.Fprintf(h, "%s %d\x00", kind, len(body))
	h.Write(body)
	return hex.EncodeToString(h.Sum(nil))
}

func BlobID(b []byte) string { return ObjID("blob", b) }

func Deflate(raw []byte) []byte {
	var b bytes.Buffer
	w := zlib.NewWriter(&b)
	w.Write(raw)
	w.Close()
	return b.Bytes()
}

func EncodeObject(kind string, body []byte) []byte {
	return Deflate(append([]byte(fmt.Sprintf("%s %d\x00", kind, len(body))), body...))
}

var objCache sync.Map // string(compressed) -> *Obj

func DecodeObjectFile(comp []byte) *Obj {
	if v, ok := objCache.Load(string(comp)); ok {
		return v.(*Obj)
	}
	o := decodeObjectFile(comp)
	objCache.Store(string(comp), o)
	return o
}

func decodeObjectFile(comp []byte) *Obj {
	zr, err := zlib.NewReader(bytes.NewReader(comp))
	if err != nil {
		return &Obj{Err: fmt.Errorf("zlib: %v", err)}
	}
	raw, err := io.ReadAll(zr)
	if err != nil {
		return &Obj{Err: fmt.Errorf("zlib: %v", err)}
	}
	i := bytes.IndexByte(raw, 0)
	if i < 0 {
		return &Obj{Err: fmt.Errorf("no NUL in header")}
	}
	hdr := string(raw[:i])
	sp := strings.IndexByte(hdr, ' ')
	if sp < 0 {
		return &Obj{Err: fmt.Errorf("bad header %q", hdr)}
	}
	kind, lenStr := hdr[:sp], hdr[sp+1:]
	n, err := strconv.Atoi(lenStr)
	if err != nil || strconv.Itoa(n) != lenStr {
		return &Obj{Err: fmt.Errorf("bad length %q", lenStr)}
	}
	body := raw[i+1:]
	if n != len(body) {
		return &Obj{Err: fmt.Errorf("length %d != body %d", n, len(body))}
	}
	switch kind {
	case "blob", "tree", "commit", "tag":
	default:
		return &Obj{Err: fmt.Errorf("bad kind %q", kind)}
	}
	s := sha1.Sum(raw)
	return &Obj{Kind: kind, Body: body, ID: hex.EncodeToString(s[:])}
}

type TreeEntry struct {
	Mode string
	Name string
	ID   string
}

func (e TreeEntry) IsDir() bool { return e.Mode == "40000" || e.Mode == "040000" }

func ParseTree(body []byte) ([]TreeEntry, error) {
	var out []TreeEntry
	for len(body) > 0 {
		sp := bytes.IndexByte(body, ' ')
		if sp < 0 {
			return nil, fmt.Errorf("tree: no space after mode")
		}
		mode := string(body[:sp])
		body = body[sp+1:]
		nul := bytes.IndexByte(body, 0)
		if nul < 0 {
			return nil, fmt.Errorf("tree: no NUL after name")
		}
		name := string(body[:nul])
		body = body[nul+1:]
		if len(body) < 20 {
			return nil, fmt.Errorf("tree: short id")
		}
		out = append(out, TreeEntry{mode, name, hex.EncodeToString(body[:20])})
		body = body[20:]
	}
	return out, nil
}

func EncodeTree(es []TreeEntry) []byte {
	var b bytes.Buffer
	for _, e := range es {
		b.WriteString(e.Mode + " " + e.Name)
		b.WriteByte(0)
		id, _ := hex.DecodeString(e.ID)
		b.Write(id)
	}
	return b.Bytes()
}

type SignLine struct {
	Raw    string
	Name   string
	Email  string
	Secs   int64
	Offset string // +HHMM / -HHMM
	OK     bool
}

var signRe = regexp.MustCompile(`^(.*) <([^<>]*)> (-?[0-9]+) ([+-][0-9]{4})$`)

func ParseSign(s string) SignLine {
	m := signRe.FindStringSubmatch(s)
	if m == nil {
		return SignLine{Raw: s}
	}
	secs, _ := strconv.ParseInt(m[3], 10, 64)
	return SignLine{Raw: s, Name: m[1], Email: m[2], Secs: secs, Offset: m[4], OK: true}
}

type CommitObj struct {
	Tree      string
	Parents   []string
	Author    string
	Committer string
	Message   string // everything after the first blank line, verbatim
	Extra     []string
}

func ParseCommit(body []byte) (*CommitObj, error) {
	c := &CommitObj{}
	s := string(body)
	hdr, msg, found := strings.Cut(s, "\n\n")
	if !found {
		hdr = strings.TrimSuffix(s, "\n")
	}
	c.Message = msg
	for _, l := range strings.Split(hdr, "\n") {
		k, v, ok := strings.Cut(l, " ")
		if !ok {
			return nil, fmt.Errorf("commit: bad header line %q", l)
		}
		switch k {
		case "tree":
			c.Tree = v
		case "parent":
			c.Parents = append(c.Parents, v)
		case "author":
			c.Author = v
		case "committer":
			c.Committer = v
		default:
			c.Extra = append(c.Extra, l)
		}
	}
	if !isHex40(c.Tree) {
		return nil, fmt.Errorf("commit: bad tree %q", c.Tree)
	}
	for _, p := range c.Parents {
		if !isHex40(p) {
			return nil, fmt.Errorf("commit: bad parent %q", p)
		}
	}
	return c, nil
}

func isHex40(s string) bool {
	if len(s) != 40 {
		return false
	}
	for i := 0; i < 40; i++ {
		c := s[i]
		if !(c >= '0' && c <= '9' || c >= 'a' && c <= 'f') {
			return false
		}
	}
	return true
}

type IndexEntry struct {
	ID   string
	Path string
}

// ParseIndex decodes Goit's index layout strictly: "DIRC", u32 version, u32 count,
// then count x (20-byte id, u16 path length, path bytes); no trailing bytes.
func ParseIndex(data []byte) ([]IndexEntry, error) {
	if len(data) < 12 {
		return nil, fmt.Errorf("index: short header (%d bytes)", len(data))
	}
	if string(data[:4]) != "DIRC" {
		return nil, fmt.Errorf("index: bad signature %q", data[:4])
	}
	n := binary.BigEndian.Uint32(data[8:12])
	p := data[12:]
	var out []IndexEntry
	for i := uint32(0); i < n; i++ {
		if len(p) < 22 {
			return nil, fmt.Errorf("index: entry %d truncated (count says %d)", i, n)
		}
		id := hex.EncodeToString(p[:20])
		l := int(binary.BigEndian.Uint16(p[20:22]))
		p = p[22:]
		if len(p) < l {
			return nil, fmt.Errorf("index: path of entry %d truncated", i)
		}
		out = append(out, IndexEntry{id, string(p[:l])})
		p = p[l:]
	}
	if len(p) != 0 {
		return nil, fmt.Errorf("index: %d trailing bytes after %d entries", len(p), n)
	}
	return out, nil
}

func EncodeIndex(es []IndexEntry) []byte {
	var b bytes.Buffer
	b.WriteString("DIRC")
	binary.Write(&b, binary.BigEndian, uint32(1))
	binary.Write(&b, binary.BigEndian, uint32(len(es)))
	for _, e := range es {
		id, _ := hex.DecodeString(e.ID)
		b.Write(id)
		binary.Write(&b, binary.BigEndian, uint16(len(e.Path)))
		b.WriteString(e.Path)
	}
	return b.Bytes()
}

// BuildTrees computes, the way Git does, the tree objects for a flat path->blob id
// map. It returns the root tree id and all tree objects (id -> body).
func BuildTrees(entries map[string]string) (string, map[string][]byte) {
	out := map[string][]byte{}
	var build func(m map[string]string) string
	build = func(m map[string]string) string {
		files := map[string]string{}
		subs := map[string]map[string]string{}
		for p, id := range m {
			if i := strings.IndexByte(p, '/'); i >= 0 {
				d := p[:i]
				if subs[d] == nil {
					subs[d] = map[string]string{}
				}
				subs[d][p[i+1:]] = id
			} else {
				files[p] = id
			}
		}
		var es []TreeEntry
		for n, id := range files {
			es = append(es, TreeEntry{"100644", n, id})
		}
		for d, sm := range subs {
			// Goit writes the mode of a sub-tree as 040000 (Git writes 40000);
			// the property statements fix ids of blobs, not of trees, so the
			// implementation's spelling is followed here.
			es = append(es, TreeEntry{"040000", d, build(sm)})
		}
		sort.Slice(es, func(i, j int) bool {
			a, b := es[i].Name, es[j].Name
			if es[i].IsDir() {
				a += "/"
			}
			if es[j].IsDir() {
				b += "/"
			}
			return a < b
		})
		body := EncodeTree(es)
		id := ObjID("tree", body)
		out[id] = body
		return id
	}
	root := build(entries)
	return root, out
}

// Abs is the abstraction of a disk state computed by gitfmt alone.
type Abs struct {
	S        *State
	W        map[string][]byte
	Index    []IndexEntry
	IndexErr error
	HasIndex bool
	Objects  map[string]*Obj // by file name (fan-out path joined)
	ObjFiles map[string][]byte
	Branches map[string]string // file name under refs/heads (may contain '/') -> content
	HeadRaw  string
	HasHead  bool
	HeadRef  string // branch name when HEAD has the form "ref: refs/heads/<name>"
	LogHEAD  []string
	Cl, Cg   map[string]map[string]string
	Stray    []string // unexpected files under .goit (outside the known layout)
}

func (s *State) Abs() *Abs {
	a := &Abs{S: s, W: s.W(), Objects: map[string]*Obj{}, ObjFiles: map[string][]byte{}, Branches: map[string]string{}}
	for p, data := range s.Files {
		if !strings.HasPrefix(p, "root/.goit/") {
			continue
		}
		rel := p[len("root/.goit/"):]
		switch {
		case rel == "index":
			a.HasIndex = true
			a.Index, a.IndexErr = ParseIndex(data)
		case rel == "HEAD":
			a.HasHead = true
			a.HeadRaw = string(data)
			if strings.HasPrefix(a.HeadRaw, "ref: refs/heads/") {
				a.HeadRef = strings.TrimSuffix(a.HeadRaw[len("ref: refs/heads/"):], "\n")
			}
		case rel == "config":
			a.Cl = ParseConfig(data)
		case strings.HasSuffix(rel, ".tmp"):
			// a temporary file left behind by an interrupted atomic write; no loader looks at it
		case strings.HasPrefix(rel, "objects/"):
			name := strings.ReplaceAll(rel[len("objects/"):], "/", "")
			a.ObjFiles[name] = data
			a.Objects[name] = DecodeObjectFile(data)
		case strings.HasPrefix(rel, "refs/heads/"):
			a.Branches[rel[len("refs/heads/"):]] = string(data)
		case rel == "logs/HEAD":
			a.LogHEAD = strings.Split(strings.TrimSuffix(string(data), "\n"), "\n")
			if len(data) == 0 {
				a.LogHEAD = nil
			}
		case strings.HasPrefix(rel, "logs/"), strings.HasPrefix(rel, "refs/tags/"):
		default:
			a.Stray = append(a.Stray, rel)
		}
	}
	if d, ok := s.Files["home/.goitconfig"]; ok {
		a.Cg = ParseConfig(d)
	}
	sort.Strings(a.Stray)
	return a
}

func (a *Abs) IndexMap() map[string]string {
	m := map[string]string{}
	for _, e := range a.Index {
		m[e.Path] = e.ID
	}
	return m
}

// Tip returns the content of the branch file HEAD names ("" when unborn).
func (a *Abs) Tip() string { return a.Branches[a.HeadRef] }

// GoodObj returns the object stored under id when it decodes and its content hashes to id.
func (a *Abs) GoodObj(id string) *Obj {
	o := a.Objects[id]
	if o == nil || o.Err != nil || o.ID != id {
		return nil
	}
	return o
}

// FlattenTree flattens a stored tree into path -> blob id.
func (a *Abs) FlattenTree(treeID string) (map[string]string, error) {
	out := map[string]string{}
	var walk func(id, prefix string, depth int) error
	walk = func(id, prefix string, depth int) error {
		if depth > 64 {
			return fmt.Errorf("tree too deep")
		}
		o := a.GoodObj(id)
		if o == nil {
			return fmt.Errorf("tree %s missing or damaged", id)
		}
		if o.Kind != "tree" {
			return fmt.Errorf("object %s is a %s, not a tree", id, o.Kind)
		}
		es, err := ParseTree(o.Body)
		if err != nil {
			return err
		}
		for _, e := range es {
			if e.IsDir() {
				if err := walk(e.ID, prefix+e.Name+"/", depth+1); err != nil {
					return err
				}
			} else {
				out[prefix+e.Name] = e.ID
			}
		}
		return nil
	}
	if err := walk(treeID, "", 0); err != nil {
		return nil, err
	}
	return out, nil
}

func (a *Abs) Commit(id string) (*CommitObj, error) {
	o := a.GoodObj(id)
	if o == nil {
		return nil, fmt.Errorf("commit %s missing or damaged", id)
	}
	if o.Kind != "commit" {
		return nil, fmt.Errorf("object %s is a %s, not a commit", id, o.Kind)
	}
	return ParseCommit(o.Body)
}

// Snapshot returns the flattened snapshot of commit id.
func (a *Abs) Snapshot(commitID string) (map[string]string, error) {
	c, err := a.Commit(commitID)
	if err != nil {
		return nil, err
	}
	return a.FlattenTree(c.Tree)
}

// Chain walks first parents from id.
func (a *Abs) Chain(id string, max int) ([]string, error) {
	var out []string
	seen := map[string]bool{}
	for id != "" && len(out) < max && !seen[id] {
		seen[id] = true
		c, err := a.Commit(id)
		if err != nil {
			return out, err
		}
		out = append(out, id)
		if len(c.Parents) == 0 {
			break
		}
		id = c.Parents[0]
	}
	return out, nil
}

// Fsck checks the connectivity invariants of C03 and returns the list of problems.
type Problem struct {
	Class string
	Msg   string
}

func (a *Abs) Fsck() []Problem {
	var probs []Problem
	cls := ""
	add := func(f string, args ...interface{}) { probs = append(probs, Problem{cls, fmt.Sprintf(f, args...)}) }
	if !a.S.Dirs["root/.goit"] {
		return nil // no repository here (e.g. after a refused or failed init)
	}
	cls = "head-names-branch"
	if !a.HasHead {
		add("HEAD: missing")
	} else if a.HeadRef == "" || strings.ContainsAny(a.HeadRef, "\n") || !strings.HasPrefix(a.HeadRaw, "ref: refs/heads/") {
		add("HEAD: not of the form 'ref: refs/heads/<name>': %q", a.HeadRaw)
	} else if _, ok := a.Branches[a.HeadRef]; !ok && len(a.Branches) > 0 {
		add("HEAD: names branch %q which does not exist (branches: %v)", a.HeadRef, keys(a.Branches))
	}
	checkedTrees := map[string]bool{}
	var checkTree func(id string, depth int)
	checkTree = func(id string, depth int) {
		if checkedTrees[id] || depth > 64 {
			return
		}
		checkedTrees[id] = true
		old := cls
		cls = "snapshot-complete"
		defer func() { cls = old }()
		o := a.GoodObj(id)
		if o == nil {
			add("tree %s: missing or damaged", id)
			return
		}
		if o.Kind != "tree" {
			add("tree %s: object is a %s", id, o.Kind)
			return
		}
		es, err := ParseTree(o.Body)
		if err != nil {
			add("tree %s: %v", id, err)
			return
		}
		for _, e := range es {
			if e.IsDir() {
				checkTree(e.ID, depth+1)
			} else {
				b := a.GoodObj(e.ID)
				if b == nil {
					add("tree %s entry %q: blob %s missing or damaged", id, e.Name, e.ID)
				} else if b.Kind != "blob" {
					add("tree %s entry %q: object %s is a %s, mode %s wants a blob", id, e.Name, e.ID, b.Kind, e.Mode)
				}
			}
		}
	}
	checkedCommits := map[string]bool{}
	var checkCommit func(id, from string)
	checkCommit = func(id, from string) {
		for !checkedCommits[id] {
			checkedCommits[id] = true
			c, err := a.Commit(id)
			if err != nil {
				add("%s: %v", from, err)
				return
			}
			checkTree(c.Tree, 0)
			for i, p := range c.Parents {
				if i > 0 {
					checkCommit(p, "parent of "+id)
				}
			}
			if len(c.Parents) == 0 {
				return
			}
			from = "parent of " + id
			id = c.Parents[0]
		}
	}
	cls = "branch-names-commit"
	for _, n := range keys(a.Branches) {
		v := a.Branches[n]
		if !isHex40(v) {
			add("branch %q: content is not a full id: %q", n, v)
			continue
		}
		checkCommit(v, "branch "+n)
	}
	cls = "index-entries-have-blobs"
	if a.HasIndex {
		if a.IndexErr != nil {
			add("index: %v", a.IndexErr)
		}
		for _, e := range a.Index {
			b := a.GoodObj(e.ID)
			if b == nil {
				add("index entry %q: blob %s missing or damaged", e.Path, e.ID)
			} else if b.Kind != "blob" {
				add("index entry %q: object %s is a %s", e.Path, e.ID, b.Kind)
			}
		}
	}
	cls = "object-name-is-hash"
	for _, n := range keysObj(a.Objects) {
		o := a.Objects[n]
		if o.Err != nil {
			add("object file %s: %v", n, o.Err)
		} else if o.ID != n {
			add("object file %s: content hashes to %s", n, o.ID)
		}
	}
	return probs
}

func keys(m map[string]string) []string {
	out := make([]string, 0, len(m))
	for k := range m {
		out = append(out, k)
	}
	sort.Strings(out)
	return out
}

func keysObj(m map[string]*Obj) []string {
	out := make([]string, 0, len(m))
	for k := range m {
		out = append(out, k)
	}
	sort.Strings(out)
	return out
}

func keysB(m map[string][]byte) []string {
	out := make([]string, 0, len(m))
	for k := range m {
		out = append(out, k)
	}
	sort.Strings(out)
	return out
}

// ParseConfig reads the "[section]" / "\tkey = value" layout. The value is everything
// after the first " = " (or first "="), untrimmed apart from the separator blanks.
func ParseConfig(data []byte) map[string]map[string]string {
	m := map[string]map[string]string{}
	sec := ""
	for _, l := range strings.Split(string(data), "\n") {
		if l == "" {
			continue
		}
		if strings.HasPrefix(l, "[") && strings.HasSuffix(l, "]") {
			sec = l[1 : len(l)-1]
			if m[sec] == nil {
				m[sec] = map[string]string{}
			}
			continue
		}
		l = strings.TrimPrefix(l, "\t")
		k, v, ok := strings.Cut(l, " = ")
		if !ok {
			k, v, _ = strings.Cut(l, "=")
		}
		if m[sec] == nil {
			m[sec] = map[string]string{}
		}
		m[sec][strings.TrimSpace(k)] = v
	}
	return m
}

// ReflogLine is one line of logs/HEAD decoded independently.
type ReflogLine struct {
	From, To string
	Ident    string
	Kind     string
	Message  string
	OK       bool
}

func ParseReflogLine(l string) ReflogLine {
	if len(l) < 82 || l[40] != ' ' || l[81] != ' ' {
		return ReflogLine{}
	}
	r := ReflogLine{From: l[:40], To: l[41:81]}
	rest := l[82:]
	ident, msg, ok := strings.Cut(rest, "\t")
	if !ok {
		return ReflogLine{}
	}
	r.Ident = ident
	k, m, ok := strings.Cut(msg, ": ")
	if !ok {
		return ReflogLine{}
	}
	r.Kind, r.Message, r.OK = k, m, true
	return r
}
