package main

import (
	"fmt"
	"sort"
	"strings"
)

func init() {
	registry["C10"] = checkC10
	harnessList = append(harnessList, "h10")
}

// commitPool: every commit object of the state, oldest first by chain position.
func commitPool(a *Abs) []string {
	var ids []string
	for id, o := range a.Objects {
		if o.Err == nil && o.Kind == "commit" && o.ID == id {
			ids = append(ids, id)
		}
	}
	sort.Strings(ids)
	return ids
}

func c10Trans(c *Ctx, pre *Node, st Step, res *Result, post *State) ([]Violation, bool) {
	pa, qa := pre.Abs(), post.Abs()
	cmd := st.Cmd()
	var vs []Violation
	bad := func(oracle, f string, args ...interface{}) {
		if res.Panicked() {
			oracle += "-panic"
		}
		vs = append(vs, Violation{Oracle: oracle, Command: cmd, Tags: st.Tags, Detail: fmt.Sprintf(f, args...) + outputTail(res)})
	}
	switch cmd {
	case "branch", "switch", "update-ref":
		outs := Allowed(pa, st)
		if outs == nil {
			// the model has no opinion on this argument shape; a refusal must still leave everything as it was
			if res.Exit != 0 && !SameIgnoringTmp(pre.State, post) {
				bad("refused-unchanged", "the refused command changed the repository")
			}
			return vs, len(vs) == 0
		}
		if ok, why := MatchAny(outs, pa, qa, res, Components{B: true, H: true}); !ok {
			bad("branch-machine", "model disagrees: %s", why)
		} else if res.Exit != 0 && post.Key() != pre.State.Key() {
			bad("refused-unchanged", "the refused command changed the repository")
		}
	case "commit", "reset":
		// only the current branch may move; HEAD keeps naming it
		if qa.HeadRaw != pa.HeadRaw {
			bad("head-follows", "HEAD changed from %q to %q", pa.HeadRaw, qa.HeadRaw)
		}
		for n, v := range pa.Branches {
			if n != pa.HeadRef && qa.Branches[n] != v {
				bad("other-branches-keep", "branch %q changed from %s to %q", n, v, qa.Branches[n])
			}
		}
		for n := range qa.Branches {
			if _, ok := pa.Branches[n]; !ok && n != pa.HeadRef {
				bad("other-branches-keep", "branch %q appeared", n)
			}
		}
	}
	return vs, len(vs) == 0
}

func c10State(c *Ctx, n *Node) []Violation {
	a := n.Abs()
	if len(a.Branches) == 0 {
		return nil
	}
	var vs []Violation
	tags := stateTags(a)
	names := keys(a.Branches)
	r, _ := c.Probe(n.State, nil, "branch", "--list")
	got, cur := ParseBranchList(r.Stdout)
	sort.Strings(got) // the statement fixes what is listed, not the order of the lines
	if r.Exit != 0 || fmt.Sprint(got) != fmt.Sprint(names) || cur != a.HeadRef {
		vs = append(vs, Violation{Oracle: "branch-list-exact", Command: "branch", Tags: tags,
			Detail: fmt.Sprintf("branch --list printed %q (current %q, exit %d), stored branches %q, HEAD names %q", got, cur, r.Exit, names, a.HeadRef),
			Trace:  append(c.X.fullTrace(n, nil), Run("branch", "--list"))})
	}
	args := append([]string{"rev-parse", "HEAD"}, names...)
	r2, _ := c.Probe(n.State, nil, args...)
	want := []string{a.Tip()}
	for _, nm := range names {
		want = append(want, a.Branches[nm])
	}
	gotLines := strings.Split(strings.TrimSuffix(r2.Stdout, "\n"), "\n")
	if r2.Exit != 0 || fmt.Sprint(gotLines) != fmt.Sprint(want) {
		vs = append(vs, Violation{Oracle: "rev-parse-exact", Command: "rev-parse", Tags: tags,
			Detail: fmt.Sprintf("rev-parse HEAD %v printed %q (exit %d), stored %q", names, gotLines, r2.Exit, want),
			Trace:  append(c.X.fullTrace(n, nil), Run(args...))})
	}
	return vs
}

func checkC10(e *RunEnv) *CheckResult {
	N := []string{"a", "b", "main", "C", "c", "a.lock", "head"}
	if e.Thorough() {
		N = append(N, "ab", "a-b", "a.b")
	}
	spec := &Spec{
		Seeds: []Seed{{"S0", seedS0()}, {"S1", seedS1()}, {"S2", seedS2()}},
		Depth: e.depth(3, 4),
		Steps: func(n *Node) []Step {
			a := n.Abs()
			t := stateTags(a)
			var steps []Step
			add := func(s Step, tags ...string) {
				steps = append(steps, s.WithTags(append(append([]string{}, t...), tags...)...))
			}
			for _, nm := range N {
				add(Run("branch", nm))
				add(Run("branch", "-d", nm))
				add(Run("branch", "-r", nm))
				add(Run("switch", nm))
				add(Run("switch", "-c", nm))
			}
			add(Run("branch", "-d", "b", "-d", "nope"), "flag-repeated")
			add(Run("branch", "-d", "a", "-d", "main"), "flag-repeated")
			add(Run("switch", "."), "name:dot")
			add(Run("switch", ".."), "name:dotdot")
			add(Run("branch", "-d", "."), "name:dot")
			pool := commitPool(a)
			for _, nm := range N {
				_, exists := a.Branches[nm]
				for i, id := range pool {
					if i >= 3 || (!exists && i > 0) {
						break
					}
					add(Run("update-ref", "refs/heads/"+nm, id))
				}
			}
			add(Run("update-ref", "refs/heads/x/b", a.Tip()), "ref:nested")
			// a commit (file content derived from the number of objects, so that it always differs)
			content := fmt.Sprintf("edit %d\n", len(a.Objects))
			add(Seq(Write("a", content), Run("add", "a"), Run("commit", "-m", "m")))
			add(Run("reset", "--soft", "HEAD@{1}"))
			return steps
		},
		CheckTrans: c10Trans,
		CheckState: c10State,
	}
	var hsum *HarnessSummary
	var hvs []Violation
	runH := func() []Violation {
		vs, sum := runHarness(e, "h10", nil, func(shard int, journal, stderr string) *Violation {
			return &Violation{Oracle: "no-fatal", Command: "refs", Detail: "harness process died: " + stderr}
		})
		hsum = sum
		return vs
	}
	var extra int
	res := runSpecWith(e, spec, func(x *Explorer) {
		hvs = runH()
		base := x.BuildState(seedS1())
		if base == nil {
			return
		}
		var cs []Case
		// branch names up to the longest file name the file system takes
		for _, l := range []int{100, 200, 240, 241, 245, 250, 251, 255} {
			nm, nm2 := strings.Repeat("L", l), strings.Repeat("M", l)
			content := "edit for a long name\n"
			cs = append(cs, Case{Base: base, BaseName: "S1", BaseSeed: seedS1(), Probe: true, Steps: []Step{
				Run("switch", "-c", nm), Write("a", content), Run("add", "a"), Run("commit", "-m", "m"), Run("switch", "main"), Run("switch", nm),
				Run("branch", nm2), Run("switch", nm2), Run("branch", "-d", nm), Run("branch", "-r", nm), Run("switch", "b"), Run("update-ref", "refs/heads/"+nm2, "")}})
		}
		// temporary files left behind by an interrupted switch / commit / add
		left := []Step{Write(".goit/HEAD.tmp", "ref: refs/heads/a-name-longer-than-any-other-branch-name-here\n"), Write(".goit/branch.tmp", strings.Repeat("junk ", 20)), Write(".goit/index.tmp", strings.Repeat("junk ", 200))}
		for _, tail := range [][]Step{
			{Run("switch", "b"), Run("switch", "main"), Run("switch", "-c", "c")},
			{Run("switch", "-c", "c"), Run("switch", "b")},
			{Run("branch", "n"), Run("switch", "n"), Run("branch", "-r", "m"), Run("branch", "-d", "n")},
			{Write("a", "edit\n"), Run("add", "a"), Run("commit", "-m", "m"), Run("switch", "b"), Run("reset", "--soft", "HEAD@{1}")},
		} {
			cs = append(cs, Case{Base: base, BaseName: "S1", BaseSeed: seedS1(), Probe: true, Steps: append(append([]Step{}, left...), tail...)})
		}
		// names with runs of digits (a "natural" order differs from the byte order) and the name "-"
		for _, set := range [][]string{{"rel-9", "rel-10", "rel-100"}, {"v2", "v10", "v1"}, {"2", "11", "1"}, {"-", "a", "b0"}} {
			var st []Step
			for _, n := range set {
				st = append(st, Run("branch", n))
			}
			content := "edit for digit names\n"
			st = append(st, Write("a", content), Run("add", "a"), Run("commit", "-m", "m"))
			for _, n := range set {
				st = append(st, Run("branch", n), Run("switch", n), Run("switch", "main"))
			}
			for _, n := range set {
				st = append(st, Run("branch", "-d", n))
			}
			cs = append(cs, Case{Base: base, BaseName: "S1", BaseSeed: seedS1(), Probe: true, Steps: st})
		}
		// 300 branches: create, list, rename and delete at both ends and in the middle
		{
			var many []Step
			for i := 0; i < 300; i++ {
				many = append(many, Run("branch", fmt.Sprintf("br%03d", i)))
			}
			many = append(many, Run("switch", "br150"), Run("branch", "-r", "zz-last"), Run("branch", "-d", "br000"), Run("branch", "-d", "br299"), Run("switch", "-c", "aa-first"), Run("branch", "-d", "zz-last"), Run("branch", "-r", "br000"))
			cs = append(cs, Case{Base: base, BaseName: "S1", BaseSeed: seedS1(), Probe: true, Steps: many})
		}
		extra = x.RunCases(cs)
	}, func(x *Explorer, cov map[string]interface{}) {
		cov["long_name_and_leftover_cases"] = extra
		cov["in_module_histories"] = hsum.Evaluations
		cov["in_module_distinct_end_states"] = hsum.Distinct
		cov["evaluations"] = int(x.Transitions) + int(x.Probes) + hsum.Evaluations
		cov["exhaustive"] = x.Exhaustive && hsum.Exhaustive
	})
	res.Violations = append(res.Violations, hvs...)
	oldRejudge := res.Rejudge
	var rerun []Violation
	var rerunDone bool
	res.Rejudge = func(v *Violation) []Violation {
		if v.Case != nil || v.Oracle == "no-fatal" {
			if !rerunDone {
				rerun, rerunDone = runH(), true
			}
			return rerun
		}
		return oldRejudge(v)
	}
	return res
}
