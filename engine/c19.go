package main

import (
	"fmt"
	"os"
	"path/filepath"
	"sort"
	"strings"
	"sync"
)

func init() {
	registry["C19"] = checkC19
	harnessList = append(harnessList, "h19")
}

// corpusTrace produces a repository holding every file kind Goit writes: blobs, trees
// with 1 and 3+ entries, nested and empty trees, commits with 0 and 1 parent, an index
// with 3 entries, HEAD, two branch files, local and global config, a HEAD journal with
// rename records.
func corpusTrace() []Step {
	t := seedS2()
	t = append(t, Run("config", "--global", "user.name", "Global User"), Run("branch", "-r", "trunk"),
		Write("d/s/z", "z\n"), Write("b.txt", "b\n"), Write("c d", "c\n"), Run("add", "d", "b.txt", "c d"), Run("commit", "-m", "three: entries"),
		Run("rm", "a", "b.txt", "c d", "d"), Run("commit", "-m", "empty"),
		Write("a", "a again\n"), Write("d/x", "x again\n"), Write("k", "k\n"), Write("m0", "m0\n"), Write("m9", "m9\n"), Run("add", "a", "d", "k", "m0", "m9"), Run("switch", "-c", "topic"), Run("reset", "--soft", "HEAD@{2}"))
	return t
}

func writeStateTo(s *State, dir string) error {
	for d := range s.Dirs {
		if err := os.MkdirAll(filepath.Join(dir, d), 0o755); err != nil {
			return err
		}
	}
	for p, data := range s.Files {
		fp := filepath.Join(dir, p)
		os.MkdirAll(filepath.Dir(fp), 0o755)
		if err := os.WriteFile(fp, data, 0o644); err != nil {
			return err
		}
	}
	return nil
}

func c19Trans(c *Ctx, pre *Node, st Step, res *Result, post *State) ([]Violation, bool) {
	var vs []Violation
	if res.Panicked() || (res.Exit != 0 && res.Exit != 1) {
		site := ""
		if f, l := res.PanicSite(c.X.module); f != "" {
			site = SourceLine(f, l)
		}
		vs = append(vs, Violation{Oracle: "no-panic", Command: st.Cmd(), Tags: st.Tags, Site: site, Detail: fmt.Sprintf("exit %d on a damaged repository%s", res.Exit, outputTail(res))})
	}
	// cat-file of an object whose intact content is known: success means exactly that content / kind
	if st.Cmd() == "cat-file" && len(st.Args) == 3 && res.Exit == 0 {
		if want, ok := c19Want.Load(st.Args[1] + " " + st.Args[2]); ok && res.Stdout != want.(string) {
			vs = append(vs, Violation{Oracle: "damaged-object-not-served", Command: "cat-file", Tags: st.Tags,
				Detail: fmt.Sprintf("cat-file %s %s succeeded and printed %q; the object stored under that name originally reads %q", st.Args[1], st.Args[2], trunc(res.Stdout, 80), trunc(want.(string), 80))})
		}
	}
	return vs, len(vs) == 0
}

var c19Want sync.Map // "-t <id>" / "-p <id>" -> output on the intact repository

func checkC19(e *RunEnv) *CheckResult {
	spec := &Spec{Depth: 0, CheckTrans: c19Trans}
	var hsum *HarnessSummary
	var hvs []Violation
	var cli int
	corpusDir := filepath.Join(e.B.Scratch, "corpus19")
	runH := func() []Violation {
		vs, sum := runHarness(e, "h19", []string{corpusDir}, func(shard int, journal, stderr string) *Violation {
			return &Violation{Oracle: "no-fatal", Command: "decode", Detail: "harness process died (runtime fatal / out of memory / killed) while handling " + strings.TrimSpace(journal) + ": " + stderr}
		})
		hsum = sum
		return vs
	}
	res := runSpecWith(e, spec, func(x *Explorer) {
		x.module = e.B.Module
		base := x.BuildState(corpusTrace())
		if base == nil {
			hsum = &HarnessSummary{}
			return
		}
		if err := writeStateTo(base, corpusDir); err != nil {
			harnessFatal("%v", err)
		}
		hvs = runH()
		// CLI layer: every truncation (thorough: + 3 substitution values) of every .goit file, six read-only commands
		var files []string
		for p := range base.Files {
			if strings.HasPrefix(p, "root/.goit/") {
				files = append(files, p)
			}
		}
		sort.Strings(files)
		var tip string
		for _, v := range base.Abs().Branches {
			tip = v
		}
		// what cat-file prints for every object of the intact repository (blobs and commits: kind and bytes; trees: kind)
		ba := base.Abs()
		ids := keysObj(ba.Objects)
		for _, id := range ids {
			if o := ba.Objects[id]; o.Err == nil {
				c19Want.Store("-t "+id, o.Kind+"\n")
				if o.Kind != "tree" {
					c19Want.Store("-p "+id, string(o.Body)+"\n")
				}
			}
		}
		cmds := [][]string{{"cat-file", "-p", tip}, {"cat-file", "-t", tip}, {"ls-files"}, {"status"}, {"log"}, {"reflog"}, {"rev-parse", "HEAD"}}
		var cs []Case
		for _, p := range files {
			orig := base.Files[p]
			rel := p[len("root/"):]
			var muts [][]byte
			var tags [][]string
			for i := 0; i < len(orig); i++ {
				muts = append(muts, orig[:i])
				tags = append(tags, []string{"mutation:truncate"})
				if e.Thorough() {
					for _, v := range []byte{0x00, 0x20, 0xff} {
						if orig[i] != v {
							m := append([]byte{}, orig...)
							m[i] = v
							muts = append(muts, m)
							tags = append(tags, []string{"mutation:substitute"})
						}
					}
				}
			}
			for mi, m := range muts {
				for _, cmd := range cmds {
					t := append([]string{"file:" + kindOfGoitFile(rel)}, tags[mi]...)
					cs = append(cs, Case{Base: base, BaseName: "corpus", BaseSeed: corpusTrace(), Steps: []Step{{Op: "write", Path: rel, Data: m}, Run(cmd...).WithTags(t...)}})
				}
			}
		}
		// every object file replaced by every other object's file: cat-file of the name must not serve the other content
		for _, a := range ids {
			for _, b := range ids {
				if a == b {
					continue
				}
				rel := ".goit/objects/" + a[:2] + "/" + a[2:]
				data := base.Files["root/.goit/objects/"+b[:2]+"/"+b[2:]]
				t := []string{"file:object", "mutation:swap"}
				cs = append(cs, Case{Base: base, BaseName: "corpus", BaseSeed: corpusTrace(), Steps: []Step{{Op: "write", Path: rel, Data: data}, Run("cat-file", "-t", a).WithTags(t...), Run("cat-file", "-p", a).WithTags(t...)}})
			}
		}
		// every truncation of every object file: cat-file of that very object
		for _, a := range ids {
			rel := ".goit/objects/" + a[:2] + "/" + a[2:]
			orig := base.Files["root/"+rel]
			for i := 0; i < len(orig); i++ {
				t := []string{"file:object", "mutation:truncate"}
				cs = append(cs, Case{Base: base, BaseName: "corpus", BaseSeed: corpusTrace(), Steps: []Step{{Op: "write", Path: rel, Data: orig[:i]}, Run("cat-file", "-t", a).WithTags(t...), Run("cat-file", "-p", a).WithTags(t...)}})
			}
		}
		cli = x.RunCases(cs)
	}, func(x *Explorer, cov map[string]interface{}) {
		cov["states"] = hsum.Distinct + cli
		cov["transitions"] = hsum.Evaluations + int(x.Transitions)
		cov["traces_validated_against_impl"] = hsum.Evaluations + int(x.Transitions)
		cov["evaluations"] = hsum.Evaluations + int(x.Transitions)
		cov["distinct_nontrivial"] = hsum.Distinct + cli
		cov["in_module_loader_calls"] = hsum.Evaluations
		cov["in_module_mutants"] = hsum.Distinct
		cov["cli_cases"] = cli
		cov["exhaustive"] = x.Exhaustive && hsum.Exhaustive
		cov["samples"] = append(hsum.Samples, x.Samples...)
		cov["rule"] = "in-module: every truncation, single-byte deletion and single-byte substitution (8 values quick, 256 thorough) of every file of a corpus repository (object files both raw and at the level of their inflated content, re-deflated), every ordered swap of two object files, all token strings up to length n for config / HEAD / reflog / tree body / commit body; after each mutant every exported loader is called; CLI: six read-only commands on every truncation; distinct_nontrivial = mutants + CLI cases"
	})
	res.Violations = append(res.Violations, hvs...)
	oldRejudge := res.Rejudge
	var rerun []Violation
	var rerunDone bool
	res.Rejudge = func(v *Violation) []Violation {
		if v.Case != nil || v.Oracle == "no-fatal" {
			// the harness is deterministic: one complete second run confirms every in-module violation
			if !rerunDone {
				rerun, rerunDone = runH(), true
			}
			return rerun
		}
		return oldRejudge(v)
	}
	return res
}

func kindOfGoitFile(rel string) string {
	rel = strings.TrimPrefix(rel, ".goit/")
	switch {
	case strings.HasPrefix(rel, "objects/"):
		return "object"
	case rel == "index":
		return "index"
	case rel == "HEAD":
		return "HEAD"
	case rel == "config":
		return "config"
	case strings.HasPrefix(rel, "refs/heads/"):
		return "branch"
	case rel == "logs/HEAD":
		return "reflog"
	}
	return "other"
}
