package main

import (
	"fmt"
	"strings"
)

func init() {
	registry["C05"] = checkC05
	harnessList = append(harnessList, "h05")
}

type catLine struct{ Mode, Kind, ID, Name string }

func parseCatFileTree(out string) ([]catLine, bool) {
	out = strings.TrimSuffix(out, "\n")
	if out == "" {
		return nil, true
	}
	var ls []catLine
	for _, l := range strings.Split(out, "\n") {
		head, name, ok := strings.Cut(l, "\t")
		f := strings.Split(head, " ")
		if !ok || len(f) != 3 {
			return nil, false
		}
		ls = append(ls, catLine{f[0], f[1], f[2], name})
	}
	return ls, true
}

// c05Readback: Goit's own reading of commit `tip` in state s must equal the
// independent reading.
func c05Readback(c *Ctx, s *State, a *Abs, tags []string, trace []Step) []Violation {
	tip := a.Tip()
	cm, err := a.Commit(tip)
	if err != nil {
		return nil
	}
	want, err := a.FlattenTree(cm.Tree)
	if err != nil {
		return nil // C03's business
	}
	var vs []Violation
	bad := func(oracle, cmd string, step Step, f string, args ...interface{}) {
		vs = append(vs, Violation{Oracle: oracle, Command: cmd, Tags: tags, Detail: fmt.Sprintf(f, args...), Trace: append(append([]Step{}, trace...), step)})
	}
	// (1) reset --mixed to the commit makes the staging area equal its snapshot
	st := Run("reset", "--mixed", "HEAD@{0}")
	r, post := c.Probe(s, nil, st.Args...)
	if r.Exit != 0 {
		o := "reset-mixed-readback"
		if r.Panicked() {
			o += "-panic"
		}
		bad(o, "reset", st, "reset --mixed to the current commit failed%s", outputTail(r))
	} else {
		pa := post.Abs()
		sorted := true
		for i := 1; i < len(pa.Index); i++ {
			if pa.Index[i-1].Path >= pa.Index[i].Path {
				sorted = false
				bad("index-file-canonical", "reset", st, "after reset --mixed the staging area file is not in strictly ascending path order: %q before %q", pa.Index[i-1].Path, pa.Index[i].Path)
				break
			}
		}
		if !sorted {
		} else if pa.IndexErr != nil {
			bad("reset-mixed-readback", "reset", st, "index unreadable after reset: %v", pa.IndexErr)
		} else if d := diffStrMaps("staging area after reset --mixed", want, pa.IndexMap(), nil); d != "" || len(pa.Index) != len(want) {
			bad("reset-mixed-readback", "reset", st, "%s (entries %d, expected %d)", d, len(pa.Index), len(want))
		} else {
			r2, _ := c.Probe(post, nil, "ls-files", "-s")
			got := map[string]string{}
			for _, e := range ParseLsFilesS(r2.Stdout) {
				got[e.Path] = e.ID
			}
			if d := diffStrMaps("ls-files -s", want, got, nil); d != "" || r2.Exit != 0 {
				bad("ls-files-readback", "ls-files", Run("ls-files", "-s"), "%s exit %d", d, r2.Exit)
			}
		}
	}
	// (2) cat-file -p of every tree lists exactly its direct children
	seen := map[string]bool{}
	var walk func(id string)
	walk = func(id string) {
		if seen[id] {
			return
		}
		seen[id] = true
		o := a.GoodObj(id)
		if o == nil {
			return
		}
		es, err := ParseTree(o.Body)
		if err != nil {
			return
		}
		st := Run("cat-file", "-p", id)
		r, _ := c.Probe(s, nil, st.Args...)
		if r.Exit != 0 {
			oname := "cat-file-tree"
			if r.Panicked() {
				oname += "-panic"
			}
			bad(oname, "cat-file", st, "cat-file -p of a tree Goit wrote failed%s", outputTail(r))
		} else {
			ls, ok := parseCatFileTree(r.Stdout)
			if !ok || len(ls) != len(es) {
				bad("cat-file-tree", "cat-file", st, "listing has %d lines for %d children: %q", len(ls), len(es), trunc(r.Stdout, 300))
			} else {
				for i, e := range es {
					kind := "blob"
					if e.IsDir() {
						kind = "tree"
					}
					if ls[i].Kind != kind || ls[i].ID != e.ID || ls[i].Name != e.Name {
						bad("cat-file-tree", "cat-file", st, "child %d listed as (%s %s %q), stored as (%s %s %q)", i, ls[i].Kind, ls[i].ID, ls[i].Name, kind, e.ID, e.Name)
						break
					}
				}
			}
		}
		for _, e := range es {
			if e.IsDir() {
				walk(e.ID)
			}
		}
	}
	walk(cm.Tree)
	return vs
}

func c05Trans(c *Ctx, pre *Node, st Step, res *Result, post *State) ([]Violation, bool) {
	if st.Cmd() == "write-tree" && res.Exit == 0 {
		// the id printed names a stored tree whose flattened content is exactly the staging area
		pa, qa := pre.Abs(), post.Abs()
		if pa.IndexErr != nil || indexConflict(pa) {
			return nil, true
		}
		id := strings.TrimSpace(res.Stdout)
		flat, err := qa.FlattenTree(id)
		if err != nil {
			return []Violation{{Oracle: "write-tree-id-names-staged-tree", Command: "write-tree", Tags: st.Tags, Detail: fmt.Sprintf("write-tree printed %q, which is not a complete stored tree: %v", trunc(id, 60), err)}}, false
		}
		if d := diffStrMaps("tree printed by write-tree vs staged entries", pa.IndexMap(), flat, nil); d != "" {
			return []Violation{{Oracle: "write-tree-id-names-staged-tree", Command: "write-tree", Tags: st.Tags, Detail: d}}, false
		}
		return nil, true
	}
	if st.Cmd() == "reset" && res.Exit == 0 && len(st.Args) == 3 && st.Args[1] == "--mixed" {
		// Goit's own reading of the snapshot it has just been reset to, from a staging area that held something else
		qa := post.Abs()
		if snap, err := qa.Snapshot(qa.Tip()); err == nil && qa.IndexErr == nil {
			if d := diffStrMaps("staging area after reset --mixed vs the snapshot", snap, qa.IndexMap(), nil); d != "" {
				return []Violation{{Oracle: "reset-mixed-readback", Command: "reset", Tags: st.Tags, Detail: d}}, false
			}
		} else if qa.IndexErr != nil {
			return []Violation{{Oracle: "reset-mixed-readback", Command: "reset", Tags: st.Tags, Detail: "the staging area does not decode after reset --mixed: " + qa.IndexErr.Error()}}, false
		}
		return nil, true
	}
	if _, ok := commitMsg(st); !ok || res.Exit != 0 {
		return nil, true
	}
	qa := post.Abs()
	tags := st.Tags
	if snap, err := qa.Snapshot(qa.Tip()); err == nil {
		tags = unionTags(nameSetTags(keys(snap)), st.Tags)
		if len(snap) == 0 {
			tags = append(tags, "snapshot-empty")
		}
	}
	vs := c05Readback(c, post, qa, tags, traceFor(c, pre, st))
	// ... and that snapshot is exactly what was staged when the commit was made
	if pa := pre.Abs(); pa.IndexErr == nil && !indexConflict(pa) {
		if snap, err := qa.Snapshot(qa.Tip()); err == nil {
			if d := diffStrMaps("snapshot vs staged entries", pa.IndexMap(), snap, nil); d != "" {
				vs = append(vs, Violation{Oracle: "snapshot-is-what-was-staged", Command: "commit", Tags: tags, Detail: d})
			}
		}
	}
	return vs, len(vs) == 0
}

// traceFor returns the complete trace (seed + path + step) for violations found by
// probes behind a transition; for input-enumeration cases the case runner fills it in.
func traceFor(c *Ctx, pre *Node, st Step) []Step {
	return c.X.fullTrace(pre, &st)
}

// findContent searches c<n> such that pred(id bytes) holds; deterministic.
func findContent(prefix string, pred func(id string) bool) string {
	for n := 0; ; n++ {
		s := fmt.Sprintf("%s%d\n", prefix, n)
		if pred(BlobID([]byte(s))) {
			return s
		}
	}
}

func checkC05(e *RunEnv) *CheckResult {
	P := []string{"d/x", "d x", "d-x", "d/s t/u", "d_y", "dd/z"}
	spec := &Spec{
		Seeds: []Seed{{"S0", seedS0()}},
		Depth: e.depth(4, 7),
		Steps: func(n *Node) []Step {
			a := n.Abs()
			var steps []Step
			for _, p := range P {
				if d, ok := a.W[p]; ok {
					if string(d) != v2(p) {
						steps = append(steps, Write(p, v2(p)))
					}
				} else {
					steps = append(steps, Write(p, v1(p)))
				}
				steps = append(steps, Run("add", p), Run("rm", p))
			}
			steps = append(steps, Run("commit", "-m", "m"), Run("write-tree"))
			return steps
		},
		CheckTrans: c05Trans,
		// in every state with a commit (the staging area may differ from it): read-back of the tip
		CheckState: func(c *Ctx, n *Node) []Violation {
			a := n.Abs()
			if a.Tip() == "" || n.Parent == nil {
				return nil
			}
			tags := stateTags(a)
			if snap, err := a.Snapshot(a.Tip()); err == nil {
				tags = unionTags(nameSetTags(keys(snap)), tags)
				if !mapsEqual(snap, a.IndexMap()) {
					tags = append(tags, "index-differs-from-tip")
				}
			}
			return c05Readback(c, n.State, a, tags, c.X.fullTrace(n, nil))
		},
	}
	var sweep, special int
	var hsum *HarnessSummary
	var hvs []Violation
	runH := func() []Violation {
		vs, sum := runHarness(e, "h05", nil, func(shard int, journal, stderr string) *Violation {
			return &Violation{Oracle: "no-fatal", Command: "tree-decode", Detail: "harness process died: " + stderr}
		})
		hsum = sum
		return vs
	}
	k := e.pick(3, 4)
	uni := append(append([]string{}, universe18...), "d/s/t/v w", "d  x", "a.b/c-d/e_f/g+h")
	res := runSpecWith(e, spec, func(x *Explorer) {
		hvs = runH()
		base := x.BuildState(seedS0())
		if base == nil {
			return
		}
		var cases []Case
		for _, set := range subsetsUpTo(uni, k) {
			var steps []Step
			for _, p := range set {
				steps = append(steps, Write(p, v1(p)))
			}
			steps = append(steps, Run(append([]string{"add"}, topLevel(set)...)...), Run("commit", "-m", "m"))
			if len(set) >= 2 {
				// a second snapshot after a pure removal: nothing of the first tree may be carried over wrongly
				steps = append(steps, Run("rm", set[len(set)-1]), Run("commit", "-m", "m2"))
			}
			cases = append(cases, Case{Base: base, BaseName: "S0", BaseSeed: seedS0(), Steps: steps})
		}
		for _, st := range nestedTwinCases() {
			cases = append(cases, Case{Base: base, BaseName: "S0", BaseSeed: seedS0(), Steps: st})
		}
		cases = append(cases, Case{Base: base, BaseName: "S0", BaseSeed: seedS0(), Steps: bigSnapshotSteps()})
		// one directory whose tree exceeds 4 KiB (150 entries) / 32 KiB (900 entries), names of 250 and 255 bytes, identical sub-trees
		cases = append(cases, Case{Base: base, BaseName: "S0", BaseSeed: seedS0(), Steps: hugeDirSteps(150)}, Case{Base: base, BaseName: "S0", BaseSeed: seedS0(), Steps: hugeDirSteps(900)})
		sweep = x.RunCases(cases)
		// blob ids and sub-tree ids containing 0x00, 0x20, 0x0a at each of the 20 positions
		var sp []Case
		for pos := 0; pos < 20; pos++ {
			for _, v := range []string{"00", "20", "0a"} {
				pos, v := pos, v
				content := findContent("c", func(id string) bool { return id[2*pos:2*pos+2] == v })
				tag := fmt.Sprintf("id-byte-%s", v)
				sp = append(sp, Case{Base: base, BaseName: "S0", BaseSeed: seedS0(), Steps: []Step{
					Write("a", "a\n"), Write("f", content), Write("z", "z\n"), Run("add", "a", "f", "z"), Run("commit", "-m", "m").WithTags(tag, fmt.Sprintf("id-pos-%d", pos))}})
				// the same for a sub-tree id: vary the content of d/f until the tree of d has the byte
				dcontent := findContent("t", func(id string) bool {
					tid := ObjID("tree", EncodeTree([]TreeEntry{{"100644", "f", id}}))
					return tid[2*pos:2*pos+2] == v
				})
				sp = append(sp, Case{Base: base, BaseName: "S0", BaseSeed: seedS0(), Steps: []Step{
					Write("a", "a\n"), Write("d/f", dcontent), Write("z", "z\n"), Run("add", "a", "d", "z"), Run("commit", "-m", "m").WithTags(tag, fmt.Sprintf("tree-id-pos-%d", pos))}})
			}
		}
		// an id with two 0x00 bytes (a parser that splits the tree data at NUL bytes copes with one, not with two)
		twoZero := func(id string) bool {
			n := 0
			for i := 0; i < 40; i += 2 {
				if id[i:i+2] == "00" {
					n++
				}
			}
			return n >= 2
		}
		zc := findContent("z", twoZero)
		zd := findContent("y", func(id string) bool {
			return twoZero(ObjID("tree", EncodeTree([]TreeEntry{{"100644", "f", id}})))
		})
		sp = append(sp, Case{Base: base, BaseName: "S0", BaseSeed: seedS0(), Steps: []Step{
			Write("a", "a\n"), Write("f", zc), Write("d/f", zd), Write("z", "z\n"), Run("add", "a", "f", "d", "z"), Run("commit", "-m", "m").WithTags("id-two-zero-bytes")}})
		special = x.RunCases(sp)
		// the empty snapshot
		x.RunCases([]Case{{Base: base, BaseName: "S0", BaseSeed: seedS0(), Steps: []Step{Write("a", "a\n"), Run("add", "a"), Run("commit", "-m", "c1"), Run("rm", "a"), Run("commit", "-m", "empty"),
			Write("b", "b\n"), Write("c/d", "d\n"), Run("add", "b", "c"), Run("reset", "--mixed", "HEAD@{0}"), Run("add", "b"), Run("commit", "-m", "after the empty snapshot"), Run("reset", "--mixed", "HEAD@{1}")}}})
	}, func(x *Explorer, cov map[string]interface{}) {
		cov["name_set_sweep_cases"] = sweep
		cov["name_set_max_size"] = k
		cov["special_id_cases"] = special
		cov["states"] = x.States + sweep + special + 1 + hsum.Distinct
		cov["in_module_trees"] = hsum.Evaluations
		cov["evaluations"] = int(x.Transitions) + int(x.Probes) + hsum.Evaluations
		cov["distinct_nontrivial"] = x.States + sweep + special + hsum.Distinct
		cov["exhaustive"] = x.Exhaustive && hsum.Exhaustive
	})
	res.Violations = append(res.Violations, hvs...)
	oldRejudge := res.Rejudge
	var rerun []Violation
	var rerunDone bool
	res.Rejudge = func(v *Violation) []Violation {
		if v.Case != nil || v.Oracle == "no-fatal" {
			if !rerunDone {
				rerun, rerunDone = runH(), true
			}
			return rerun
		}
		return oldRejudge(v)
	}
	return res
}
