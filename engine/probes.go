package main

// Parsers for the STRUCTURE of goit's read-only output (section headers named in the
// property statements, tab-separated fields) — never error-message wording.

import (
	"regexp"
	"sort"
	"strings"
)

type StatusReport struct {
	Branch    string
	Staged    map[string]string // path -> "new file" | "modified" | "deleted"
	Unstaged  map[string]string // path -> "modified" | "deleted"
	Untracked []string
	HasStaged bool
}

func ParseStatus(out string) *StatusReport {
	r := &StatusReport{Staged: map[string]string{}, Unstaged: map[string]string{}}
	section := ""
	for _, l := range strings.Split(out, "\n") {
		switch {
		case strings.HasPrefix(l, "On branch "):
			r.Branch = strings.TrimPrefix(l, "On branch ")
		case strings.HasPrefix(l, "Changes to be committed:"):
			section = "staged"
			r.HasStaged = true
		case strings.HasPrefix(l, "Changes not staged for commit:"):
			section = "unstaged"
		case strings.HasPrefix(l, "Untracked files:"):
			section = "untracked"
		case strings.HasPrefix(l, "\t"):
			body := l[1:]
			switch section {
			case "staged", "unstaged":
				kind, path := "", body
				for _, k := range []string{"new file:", "modified:", "deleted:"} {
					if strings.HasPrefix(body, k) {
						kind = strings.TrimSuffix(k, ":")
						path = strings.TrimLeft(body[len(k):], " ")
						// the field is padded to 13 columns; a path may itself start with blanks
						if len(body) >= 13 && strings.TrimSpace(body[:13]) == k {
							path = body[13:]
						}
					}
				}
				if section == "staged" {
					r.Staged[path] = kind
				} else {
					r.Unstaged[path] = kind
				}
			case "untracked":
				r.Untracked = append(r.Untracked, body)
			}
		}
	}
	sort.Strings(r.Untracked)
	return r
}

// ParseLsFilesS parses `ls-files -s`: "<40 hex>    <path>".
func ParseLsFilesS(out string) []IndexEntry {
	var es []IndexEntry
	for _, l := range strings.Split(strings.TrimSuffix(out, "\n"), "\n") {
		if len(l) >= 44 && isHex40(l[:40]) && l[40:44] == "    " {
			es = append(es, IndexEntry{l[:40], l[44:]})
		} else if l != "" {
			es = append(es, IndexEntry{"?", l})
		}
	}
	return es
}

var logCommitRe = regexp.MustCompile(`(?m)^commit ([0-9a-f]{40})$`)

type LogEntry struct {
	ID      string
	Author  string
	Date    string
	Message string
}

func ParseLog(out string) []LogEntry {
	var es []LogEntry
	idx := logCommitRe.FindAllStringSubmatchIndex(out, -1)
	for i, m := range idx {
		end := len(out)
		if i+1 < len(idx) {
			end = idx[i+1][0]
		}
		block := out[m[1]:end]
		e := LogEntry{ID: out[m[2]:m[3]]}
		lines := strings.Split(strings.TrimPrefix(block, "\n"), "\n")
		j := 0
		for ; j < len(lines); j++ {
			if strings.HasPrefix(lines[j], "Author: ") {
				e.Author = strings.TrimPrefix(lines[j], "Author: ")
			} else if strings.HasPrefix(lines[j], "Date: ") {
				e.Date = strings.TrimPrefix(lines[j], "Date: ")
			} else if lines[j] == "" {
				j++
				break
			}
		}
		// the message is printed indented by one tab (every line, or — older format — only the first)
		ml := append([]string{}, lines[j:]...)
		for k := range ml {
			ml[k] = strings.TrimPrefix(ml[k], "\t")
		}
		msg := strings.Join(ml, "\n")
		// the entry ends with "\n" from the format and "\n" from Println
		msg = strings.TrimSuffix(msg, "\n")
		msg = strings.TrimSuffix(msg, "\n")
		e.Message = msg
		es = append(es, e)
	}
	return es
}

type ReflogEntry struct {
	ID7     string
	Pos     string
	Kind    string
	Message string
	Raw     string
}

var reflogRe = regexp.MustCompile(`^([0-9a-f]{7}) (?:\(.*?\) )?HEAD@\{(\d+)\}: ([a-z]+): (.*)$`)

func ParseReflog(out string) []ReflogEntry {
	var es []ReflogEntry
	for _, l := range strings.Split(strings.TrimSuffix(out, "\n"), "\n") {
		if l == "" {
			continue
		}
		m := reflogRe.FindStringSubmatch(l)
		if m == nil {
			es = append(es, ReflogEntry{Raw: l})
			continue
		}
		es = append(es, ReflogEntry{ID7: m[1], Pos: m[2], Kind: m[3], Message: m[4], Raw: l})
	}
	return es
}

// ParseBranchList parses `branch --list`: "* name" marks the current branch.
func ParseBranchList(out string) (names []string, current string) {
	for _, l := range strings.Split(strings.TrimSuffix(out, "\n"), "\n") {
		if l == "" {
			continue
		}
		if strings.HasPrefix(l, "* ") {
			current = l[2:]
			names = append(names, l[2:])
		} else {
			names = append(names, l)
		}
	}
	return
}
