// h01: in-module exhaustive enumeration for C01 (object store round trip).
// usage: h01 <workdir> <tier> <shard> <nshards>
package main

import (
	"bytes"
	"compress/zlib"
	"crypto/sha1"
	"encoding/hex"
	"encoding/json"
	"fmt"
	"io"
	"os"
	"path/filepath"
	"strconv"

	"MODULE/internal/object"
)

type violation struct {
	Oracle  string      `json:"oracle"`
	Command string      `json:"command"`
	Tags    []string    `json:"tags"`
	Detail  string      `json:"detail"`
	Case    interface{} `json:"case"`
}

var (
	out        = json.NewEncoder(os.Stdout)
	evals      int
	distinct   = map[string]bool{}
	nviol      int
	samples    []string
	root       string
	journal    *os.File
	replayCase string
)

func report(oracle string, tags []string, c caseT, f string, args ...interface{}) {
	nviol++
	if nviol > 50 {
		return
	}
	out.Encode(violation{Oracle: oracle, Command: "object-store", Tags: tags, Detail: fmt.Sprintf(f, args...), Case: c})
}

type caseT struct {
	Kind string `json:"kind"`
	Gen  string `json:"gen"`  // how the payload is generated
	Hex  string `json:"hex"`  // payload (hex) when short
	Size int    `json:"size"` // payload size
	Fill string `json:"fill,omitempty"`
	Pair string `json:"pair,omitempty"`
}

func kindOf(k string) object.Type {
	switch k {
	case "blob":
		return object.BlobObject
	case "tree":
		return object.TreeObject
	default:
		return object.CommitObject
	}
}

func refID(kind string, data []byte) string {
	h := sha1.New()
	fmt.Fprintf(h, "%s %d\x00", kind, len(data))
	h.Write(data)
	return hex.EncodeToString(h.Sum(nil))
}

// independentRead inflates the object file and splits header / body without using the repository's code.
func independentRead(id string) (kind string, body []byte, err error) {
	raw, err := os.ReadFile(filepath.Join(root, "objects", id[:2], id[2:]))
	if err != nil {
		return "", nil, err
	}
	zr, err := zlib.NewReader(bytes.NewReader(raw))
	if err != nil {
		return "", nil, err
	}
	all, err := io.ReadAll(zr)
	if err != nil {
		return "", nil, err
	}
	i := bytes.IndexByte(all, 0)
	if i < 0 {
		return "", nil, fmt.Errorf("no NUL")
	}
	sp := bytes.IndexByte(all[:i], ' ')
	if sp < 0 {
		return "", nil, fmt.Errorf("no space in header")
	}
	n, err := strconv.Atoi(string(all[sp+1 : i]))
	if err != nil || n != len(all)-i-1 {
		return "", nil, fmt.Errorf("header length %q does not match body %d", all[sp+1:i], len(all)-i-1)
	}
	return string(all[:sp]), all[i+1:], nil
}

func tagsFor(kind string, data []byte) []string {
	t := []string{"kind:" + kind}
	if len(data) == 0 {
		t = append(t, "payload-empty")
	}
	if bytes.IndexByte(data, 0) >= 0 {
		t = append(t, "payload-has-nul")
	}
	if len(data) >= 1<<20 {
		t = append(t, "payload-large")
	}
	return t
}

// store = NewObject + Write, judged against the independent reference.
func store(kind string, data []byte, c caseT) (id string, ok bool) {
	defer func() {
		if r := recover(); r != nil {
			report("no-panic", tagsFor(kind, data), c, "panic while storing: %v", r)
			ok = false
		}
	}()
	o, err := object.NewObject(kindOf(kind), data)
	if err != nil {
		report("store-succeeds", tagsFor(kind, data), c, "NewObject: %v", err)
		return "", false
	}
	want := refID(kind, data)
	if o.Hash.String() != want {
		report("id-is-sha1-of-header-and-bytes", tagsFor(kind, data), c, "id %s, SHA-1('%s %d\\0'+bytes) is %s", o.Hash, kind, len(data), want)
		return "", false
	}
	if err := o.Write(root); err != nil {
		report("store-succeeds", tagsFor(kind, data), c, "Write: %v", err)
		return "", false
	}
	return want, true
}

// verify = the stored object decodes independently and through GetObject to kind+bytes.
func verify(kind string, data []byte, id string, c caseT, when string) {
	defer func() {
		if r := recover(); r != nil {
			report("no-panic", tagsFor(kind, data), c, "panic while reading %s: %v", when, r)
		}
	}()
	k, body, err := independentRead(id)
	if err != nil {
		report("stored-file-decodes", tagsFor(kind, data), c, "%s: object file %s does not decode independently: %v", when, id, err)
		return
	}
	if k != kind || !bytes.Equal(body, data) {
		report("stored-file-decodes", tagsFor(kind, data), c, "%s: object file %s holds kind %q and %d bytes, stored kind %q and %d bytes", when, id, k, len(body), kind, len(data))
		return
	}
	h, _ := hex.DecodeString(id)
	o, err := object.GetObject(root, h)
	if err != nil {
		report("round-trip", tagsFor(kind, data), c, "%s: GetObject(%s): %v", when, id, err)
		return
	}
	if o.Type.String() != kind || !bytes.Equal(o.Data, data) || o.Size != len(data) || o.Hash.String() != id {
		report("round-trip", tagsFor(kind, data), c, "%s: GetObject(%s) returned kind %s, %d bytes (size field %d), id %s; stored kind %s, %d bytes", when, id, o.Type, len(o.Data), o.Size, o.Hash, kind, len(data))
	}
}

func one(kind string, data []byte, c caseT) {
	evals++
	c.Kind, c.Size = kind, len(data)
	if len(data) <= 64 {
		c.Hex = hex.EncodeToString(data)
	}
	if journal != nil {
		journal.Truncate(0)
		journal.WriteAt([]byte(fmt.Sprintf("%+v", c)), 0)
	}
	id, ok := store(kind, data, c)
	if !ok {
		return
	}
	distinct[id] = true
	verify(kind, data, id, c, "after storing")
	// storing again never changes or damages what is stored
	if _, ok := store(kind, data, c); ok {
		verify(kind, data, id, c, "after storing it again")
	}
	if len(samples) < 5 && evals%997 == 1 {
		samples = append(samples, fmt.Sprintf("%s %q -> %s", kind, trunc(data), id))
	}
}

func trunc(b []byte) string {
	if len(b) > 24 {
		return string(b[:24]) + "…"
	}
	return string(b)
}

var sigma = []byte{0x00, 0x0a, 0x20, '0', '3', 'b', 0xff}

func allStrings(maxLen int, f func(s []byte)) {
	var rec func(cur []byte)
	rec = func(cur []byte) {
		f(append([]byte{}, cur...))
		if len(cur) == maxLen {
			return
		}
		for _, b := range sigma {
			rec(append(cur, b))
		}
	}
	rec(nil)
}

func fill(kind string, n int) []byte {
	b := make([]byte, n)
	switch kind {
	case "zeros":
	case "ff":
		for i := range b {
			b[i] = 0xff
		}
	case "incompressible":
		x := uint64(0x9E3779B97F4A7C15)
		for i := range b {
			x ^= x << 13
			x ^= x >> 7
			x ^= x << 17
			b[i] = byte(x)
		}
	case "header-like":
		pat := []byte("blob 3\x00abc")
		for i := range b {
			b[i] = pat[i%len(pat)]
		}
	}
	return b
}

func main() {
	root = filepath.Join(os.Args[1], ".goit")
	tier := os.Args[2]
	shard, _ := strconv.Atoi(os.Args[3])
	nshards, _ := strconv.Atoi(os.Args[4])
	os.MkdirAll(filepath.Join(root, "objects"), 0o755)
	journal, _ = os.Create(filepath.Join(os.Args[1], "journal"))
	kinds := []string{"blob", "tree", "commit"}
	L := 5
	if tier == "thorough" {
		L = 6
	}
	n := 0
	mine := func() bool { n++; return n%nshards == shard }
	// (a) all strings up to length L over sigma
	var short [][]byte
	allStrings(L, func(s []byte) {
		if len(s) <= 4 {
			short = append(short, s)
		}
		for _, k := range kinds {
			if mine() {
				one(k, s, caseT{Gen: "all-strings"})
			}
		}
	})
	// (b) boundary sizes x fills
	sizes := []int{0, 1, 2, 9, 10, 11, 99, 100, 101, 4095, 4096, 4097, 32767, 32768, 32769, 65535, 65536, 65537, 1 << 20, 4<<20 + 3}
	if tier == "thorough" {
		sizes = append(sizes, 16<<20)
	}
	for _, sz := range sizes {
		for _, fl := range []string{"zeros", "ff", "incompressible", "header-like"} {
			for _, k := range kinds {
				if mine() {
					one(k, fill(fl, sz), caseT{Gen: "boundary-size", Fill: fl})
				}
			}
		}
	}
	// (c) header-shaped payloads
	for _, k1 := range []string{"blob", "tree", "commit", "tag", "xyz"} {
		for _, ln := range []string{"0", "3", "03", "-1", "99999999999999999999"} {
			for _, rest := range []string{"", "abc", "\x00"} {
				p := []byte(k1 + " " + ln + "\x00" + rest)
				for _, k := range kinds {
					if mine() {
						one(k, p, caseT{Gen: "header-shaped"})
					}
				}
			}
		}
	}
	for _, p := range []string{"0", "00", " 1", "12 ", "3\x00", " \x00", "\n", "7 blob"} {
		for _, k := range kinds {
			if mine() {
				one(k, []byte(p), caseT{Gen: "leading-digits-spaces"})
			}
		}
	}
	// (d) all pairs of short strings whose ids share the fan-out directory:
	// Write x; Write y; Write x; Get x; Get y
	byFan := map[string][]int{}
	ids := make([]string, len(short))
	for i, s := range short {
		ids[i] = refID("blob", s)
		byFan[ids[i][:2]] = append(byFan[ids[i][:2]], i)
	}
	for _, grp := range byFan {
		for _, i := range grp {
			for _, j := range grp {
				if i == j || !mine() {
					continue
				}
				evals++
				c := caseT{Kind: "blob", Gen: "same-fan-out-pair", Hex: hex.EncodeToString(short[i]), Pair: hex.EncodeToString(short[j])}
				x, ok1 := store("blob", short[i], c)
				y, ok2 := store("blob", short[j], c)
				_, ok3 := store("blob", short[i], c)
				if ok1 && ok2 && ok3 {
					verify("blob", short[i], x, c, "after storing a neighbour in the same fan-out directory")
					verify("blob", short[j], y, c, "after re-storing its neighbour")
				}
			}
		}
	}
	out.Encode(map[string]interface{}{"summary": true, "evaluations": evals, "distinct": len(distinct), "violations": nviol, "samples": samples, "exhaustive": true})
}
