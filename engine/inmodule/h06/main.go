// h06: in-module exhaustive enumeration for C06 (staging-area file canonical and
// lossless; lookups exact). usage: h06 <workdir> <tier> <shard> <nshards>
package main

import (
	"crypto/sha1"
	"encoding/binary"
	"encoding/hex"
	"encoding/json"
	"fmt"
	"os"
	"path/filepath"
	"sort"
	"strconv"
	"strings"

	"MODULE/internal/sha"
	"MODULE/internal/store"
)

type violation struct {
	Oracle  string      `json:"oracle"`
	Command string      `json:"command"`
	Tags    []string    `json:"tags"`
	Detail  string      `json:"detail"`
	Case    interface{} `json:"case"`
}

var (
	out      = json.NewEncoder(os.Stdout)
	evals    int
	distinct = map[string]bool{}
	nviol    int
	samples  []string
	root     string
	journal  *os.File
)

var universe = []string{"d/x", "d/y/z", "ad/x", "d-old", "d.x", "d0", "d", "D/x", "a d/x", "a+b/x", "a(b", "a.b/x", "axb/x", "é/x", "x", "dd/x", strings.Repeat("L", 100) + "/" + strings.Repeat("M", 100) + "/" + strings.Repeat("N", 98)}

var queries []string

func init() {
	set := map[string]bool{"a": true, "d/": true, "d/x/": true, "": true, "d/y": true, "a.b": true, "a+b": true, "a(": true, "a d": true}
	for _, p := range universe {
		set[p] = true
		for i := 0; i < len(p); i++ {
			if p[i] == '/' {
				set[p[:i]] = true
			}
		}
	}
	for q := range set {
		queries = append(queries, q)
	}
	sort.Strings(queries)
}

type op struct {
	Op   string `json:"op"` // update | delete
	Path string `json:"path"`
	Ver  int    `json:"ver"`
}

func report(oracle string, tags []string, ops []op, f string, args ...interface{}) {
	nviol++
	if nviol > 60 {
		return
	}
	out.Encode(violation{Oracle: oracle, Command: "index", Tags: tags, Detail: fmt.Sprintf(f, args...), Case: map[string]interface{}{"ops": ops}})
}

func idOf(path string, ver int) sha.SHA1 {
	s := sha1.Sum([]byte(fmt.Sprintf("%s#%d", path, ver)))
	return sha.SHA1(s[:])
}

func tagsOf(model map[string]string) []string {
	set := map[string]bool{}
	var paths []string
	for p := range model {
		paths = append(paths, p)
	}
	for _, p := range paths {
		if strings.Contains(p, " ") {
			set["name-has-space"] = true
		}
		if strings.ContainsAny(p, `()[]{}*+?\^$|.`) {
			set["name-has-regexp-meta"] = true
		}
		for i := 0; i < len(p); i++ {
			if p[i] == '/' {
				d := p[:i]
				for _, q := range paths {
					if q > d && q < d+"/" {
						set["sibling-sorts-between-dir-and-dir/"] = true
					}
					if !strings.HasPrefix(q, d+"/") && strings.Contains(q, d+"/") {
						set["dir-name-is-substring"] = true
					}
				}
			}
		}
	}
	var out []string
	for t := range set {
		out = append(out, t)
	}
	sort.Strings(out)
	return out
}

// decodeIndex: independent strict decoder of the index layout.
func decodeIndex() ([][2]string, error) {
	data, err := os.ReadFile(filepath.Join(root, "index"))
	if err != nil {
		return nil, err
	}
	if len(data) < 12 || string(data[:4]) != "DIRC" {
		return nil, fmt.Errorf("bad header")
	}
	n := binary.BigEndian.Uint32(data[8:12])
	p := data[12:]
	var es [][2]string
	for i := uint32(0); i < n; i++ {
		if len(p) < 22 {
			return nil, fmt.Errorf("entry %d truncated, count says %d", i, n)
		}
		l := int(binary.BigEndian.Uint16(p[20:22]))
		if len(p) < 22+l {
			return nil, fmt.Errorf("path of entry %d truncated", i)
		}
		es = append(es, [2]string{string(p[22 : 22+l]), hex.EncodeToString(p[:20])})
		p = p[22+l:]
	}
	if len(p) != 0 {
		return nil, fmt.Errorf("%d trailing bytes after %d entries", len(p), n)
	}
	return es, nil
}

func sortedModel(model map[string]string) [][2]string {
	var es [][2]string
	for p, id := range model {
		es = append(es, [2]string{p, id})
	}
	sort.Slice(es, func(i, j int) bool { return es[i][0] < es[j][0] })
	return es
}

func checkFile(model map[string]string, ops []op, when string) bool {
	want := sortedModel(model)
	got, err := decodeIndex()
	if err != nil {
		if len(model) == 0 && os.IsNotExist(err) {
			return true
		}
		report("index-file-decodes", tagsOf(model), ops, "%s: %v", when, err)
		return false
	}
	if fmt.Sprint(got) != fmt.Sprint(want) {
		report("index-file-canonical", tagsOf(model), ops, "%s: file holds %v, expected %v (strictly ascending, no duplicates)", when, got, want)
		return false
	}
	return true
}

func checkLoaded(idx *store.Index, model map[string]string, ops []op, when string) bool {
	want := sortedModel(model)
	var got [][2]string
	for _, e := range idx.Entries {
		got = append(got, [2]string{string(e.Path), e.Hash.String()})
	}
	if fmt.Sprint(got) != fmt.Sprint(want) || int(idx.EntryNum) != len(want) {
		report("index-loads-back", tagsOf(model), ops, "%s: loaded entries %v (count field %d), expected %v", when, got, idx.EntryNum, want)
		return false
	}
	return true
}

func checkQueries(idx *store.Index, model map[string]string, ops []op) {
	want := sortedModel(model)
	for _, q := range queries {
		func() {
			defer func() {
				if r := recover(); r != nil {
					report("lookup-no-panic", append(tagsOf(model), "query:"+q), ops, "lookup of %q panicked: %v", q, r)
				}
			}()
			evals++
			pos, e, found := idx.GetEntry([]byte(q))
			_, in := model[q]
			if found != in {
				report("getentry-exact", tagsOf(model), ops, "GetEntry(%q) found=%v, tracked=%v", q, found, in)
			} else if found && (string(e.Path) != q || pos < 0 || pos >= len(idx.Entries) || string(idx.Entries[pos].Path) != q || e.Hash.String() != model[q]) {
				report("getentry-exact", tagsOf(model), ops, "GetEntry(%q) returned position %d entry %q", q, pos, e.Path)
			}
			var beneath []string
			for _, w := range want {
				if strings.HasPrefix(w[0], q+"/") && len(w[0]) > len(q)+1 {
					beneath = append(beneath, w[0])
				}
			}
			if got := idx.IsRegisteredAsDirectory(q); got != (len(beneath) > 0) {
				report("is-directory-exact", tagsOf(model), ops, "IsRegisteredAsDirectory(%q) = %v, tracked paths beneath it: %v", q, got, beneath)
			}
			var gotB []string
			for _, e := range idx.GetEntriesByDirectory(q) {
				gotB = append(gotB, string(e.Path))
			}
			if fmt.Sprint(gotB) != fmt.Sprint(beneath) {
				report("entries-by-directory-exact", tagsOf(model), ops, "GetEntriesByDirectory(%q) = %v, expected %v", q, gotB, beneath)
			}
		}()
	}
}

func fresh() *store.Index {
	os.Remove(filepath.Join(root, "index"))
	idx, err := store.NewIndex(root)
	if err != nil {
		panic(err)
	}
	return idx
}

// apply one op to the live index and the model; returns false when a violation stops the sequence.
func apply(idx *store.Index, model map[string]string, o op, ops []op) bool {
	defer func() {
		if r := recover(); r != nil {
			report("op-no-panic", tagsOf(model), ops, "%s %q panicked: %v", o.Op, o.Path, r)
		}
	}()
	evals++
	switch o.Op {
	case "update":
		id := idOf(o.Path, o.Ver)
		prev, had := model[o.Path]
		updated, err := idx.Update(root, id, []byte(o.Path))
		if err != nil {
			report("update-succeeds", tagsOf(model), ops, "Update(%q): %v", o.Path, err)
			return false
		}
		model[o.Path] = id.String()
		if updated == (had && prev == id.String()) {
			report("update-reports-change", tagsOf(model), ops, "Update(%q) returned %v (entry existed with the same id: %v)", o.Path, updated, had && prev == id.String())
			return false
		}
	case "delete":
		_, had := model[o.Path]
		err := idx.DeleteEntry(root, []byte(o.Path))
		if (err == nil) != had {
			report("delete-exact", tagsOf(model), ops, "DeleteEntry(%q) error %v, tracked before: %v", o.Path, err, had)
			return false
		}
		delete(model, o.Path)
	}
	return true
}

func realizable(set []string) bool {
	for _, p := range set {
		for _, q := range set {
			if p != q && strings.HasPrefix(q, p+"/") {
				return false
			}
		}
	}
	return true
}

func permutations(n int, f func(p []int)) {
	p := make([]int, n)
	for i := range p {
		p[i] = i
	}
	var rec func(k int)
	rec = func(k int) {
		if k == n {
			f(p)
			return
		}
		for i := k; i < n; i++ {
			p[k], p[i] = p[i], p[k]
			rec(k + 1)
			p[k], p[i] = p[i], p[k]
		}
	}
	rec(0)
}

func main() {
	root = filepath.Join(os.Args[1], ".goit")
	tier := os.Args[2]
	shard, _ := strconv.Atoi(os.Args[3])
	nshards, _ := strconv.Atoi(os.Args[4])
	os.MkdirAll(root, 0o755)
	journal, _ = os.Create(filepath.Join(os.Args[1], "journal"))
	k := 4
	depth := 4
	if tier == "thorough" {
		k, depth = 5, 5
	}
	n := 0
	mine := func() bool { n++; return n%nshards == shard }
	// (1) every realizable subset up to size k x every insertion order
	var rec func(start int, cur []string, size int)
	rec = func(start int, cur []string, size int) {
		if len(cur) == size {
			if !realizable(cur) || !mine() {
				return
			}
			set := append([]string{}, cur...)
			distinct[strings.Join(set, "|")] = true
			permutations(len(set), func(p []int) {
				idx := fresh()
				model := map[string]string{}
				var ops []op
				ok := true
				for _, i := range p {
					o := op{"update", set[i], 1}
					ops = append(ops, o)
					if !apply(idx, model, o, ops) || !checkFile(model, ops, "after "+o.Op+" "+o.Path) {
						ok = false
						break
					}
				}
				if !ok {
					return
				}
				if journal != nil {
					journal.WriteAt([]byte(fmt.Sprintf("%-200v", ops)), 0)
				}
				checkLoaded(idx, model, ops, "live instance")
				checkQueries(idx, model, ops)
				re, err := store.NewIndex(root)
				if err != nil {
					report("index-loads-back", tagsOf(model), ops, "NewIndex after the writes: %v", err)
					return
				}
				checkLoaded(re, model, ops, "fresh load")
				checkQueries(re, model, ops)
				if len(samples) < 4 && evals%5003 < 40 {
					samples = append(samples, fmt.Sprintf("insert %v in this order, then %d lookups", ops, len(queries)))
				}
			})
			return
		}
		for i := start; i < len(universe); i++ {
			rec(i+1, append(cur, universe[i]), size)
		}
	}
	for size := 0; size <= k; size++ {
		rec(0, nil, size)
	}
	// (1b) large entry sets (the sort used by the index behaves differently above 12 elements):
	// every realizable path of the universe plus 6 extra names, inserted in three orders, then every
	// path re-staged with a new id and every second path deleted, verified after each call
	if shard == 0 {
		var big []string
		for _, p := range universe {
			if p != "d" {
				big = append(big, p)
			}
		}
		big = append(big, "f01", "f02", "f03", "f04", "f05", "f06")
		orders := [][]string{append([]string{}, big...), nil, nil}
		for i := len(big) - 1; i >= 0; i-- {
			orders[1] = append(orders[1], big[i])
		}
		for i := 0; i < len(big); i += 2 {
			orders[2] = append(orders[2], big[i])
		}
		for i := 1; i < len(big); i += 2 {
			orders[2] = append(orders[2], big[i])
		}
		for _, ord := range orders {
			idx := fresh()
			model := map[string]string{}
			var ops []op
			ok := true
			step := func(o op) {
				if !ok {
					return
				}
				ops = append(ops, o)
				if !apply(idx, model, o, ops) || !checkFile(model, ops, "after "+o.Op+" "+o.Path) || !checkLoaded(idx, model, ops, "live instance") {
					ok = false
				}
			}
			for _, p := range ord {
				step(op{"update", p, 1})
			}
			for _, p := range ord {
				step(op{"update", p, 2})
				step(op{"update", p, 2})
			}
			if ok {
				checkQueries(idx, model, ops)
			}
			for i, p := range ord {
				if i%2 == 0 {
					step(op{"delete", p, 0})
				}
			}
			if ok {
				checkQueries(idx, model, ops)
				distinct["big:"+ord[0]] = true
			}
		}
	}
	// (2) DFS over histories on ONE live instance: update(new id) / update(same id) / delete over 6 paths
	hp := []string{"d/x", "d-old", "d.x", "ad/x", "d0", "a(b"}
	var alphabet []op
	for _, p := range hp {
		alphabet = append(alphabet, op{"update", p, 1}, op{"update", p, 2}, op{"delete", p, 0})
	}
	var dfs func(prefix []op)
	replay := func(ops []op) {
		idx := fresh()
		model := map[string]string{}
		for i, o := range ops {
			if !apply(idx, model, o, ops[:i+1]) {
				return
			}
		}
		if !checkFile(model, ops, "after the history") || !checkLoaded(idx, model, ops, "live instance") {
			return
		}
		checkQueries(idx, model, ops)
		key := fmt.Sprint(sortedModel(model))
		distinct["h:"+key] = true
	}
	dfs = func(prefix []op) {
		if len(prefix) > 0 {
			replay(prefix)
		}
		if len(prefix) == depth {
			return
		}
		for _, o := range alphabet {
			dfs(append(append([]op{}, prefix...), o))
		}
	}
	// shard on the first op
	for i, o := range alphabet {
		if i%nshards == shard {
			dfs([]op{o})
		}
	}
	out.Encode(map[string]interface{}{"summary": true, "evaluations": evals, "distinct": len(distinct), "violations": nviol, "samples": samples, "exhaustive": true})
}
