// h19: in-module enumeration for C19 (decoders are total). Every truncation, single-byte
// deletion and single-byte substitution of every file Goit wrote (object files also at
// the level of their inflated content), every swap of two object files, and all token
// strings up to a length for each text decoder are fed to the exported loaders.
// usage: h19 <workdir> <tier> <shard> <nshards> <corpusdir>
package main

import (
	"bytes"
	"compress/zlib"
	"encoding/hex"
	"encoding/json"
	"fmt"
	"io"
	"os"
	"path/filepath"
	"runtime/debug"
	"sort"
	"strconv"
	"strings"
	"sync/atomic"
	"syscall"
	"time"

	"MODULE/internal/object"
	"MODULE/internal/sha"
	"MODULE/internal/store"
)

type violation struct {
	Oracle  string      `json:"oracle"`
	Command string      `json:"command"`
	Tags    []string    `json:"tags"`
	Site    string      `json:"site,omitempty"`
	Detail  string      `json:"detail"`
	Case    interface{} `json:"case"`
}

type caseT struct {
	File  string `json:"file"`
	Kind  string `json:"kind"`  // what kind of file
	Mut   string `json:"mut"`   // truncate | delete | substitute | swap | tokens
	Level string `json:"level"` // raw | inflated
	Pos   int    `json:"pos"`
	Val   int    `json:"val"`
	Other string `json:"other,omitempty"`
	Text  string `json:"text,omitempty"`
}

var (
	out       *json.Encoder
	evals     int64
	mutations int
	nviol     int
	seenSig   = map[string]int{}
	root      string
	home      string
	journal   *os.File
	caseStart int64
	curCase   atomic.Value
	deadline  time.Time
)

func report(oracle, site string, c caseT, f string, args ...interface{}) {
	nviol++
	key := oracle + "|" + c.Kind + "|" + c.Mut + "|" + site
	seenSig[key]++
	if seenSig[key] > 3 {
		return
	}
	tags := []string{"file:" + c.Kind, "mutation:" + c.Mut}
	if c.Level != "" {
		tags = append(tags, "level:"+c.Level)
	}
	out.Encode(violation{Oracle: oracle, Command: "decode", Tags: tags, Site: site, Detail: fmt.Sprintf(f, args...), Case: c})
}

// guard runs f, converting a panic into a violation. site = first frame inside the module.
func guard(c caseT, what string, f func()) {
	defer func() {
		if r := recover(); r != nil {
			site := panicSite()
			if site == "" {
				site = what
			}
			report("no-panic", site, c, "%s panicked: %v", what, r)
		}
	}()
	atomic.AddInt64(&evals, 1)
	f()
}

// panicSite returns the source text of the first frame inside the repository's packages.
func panicSite() string {
	lines := strings.Split(string(debug.Stack()), "\n")
	for _, l := range lines {
		l = strings.TrimSpace(l)
		if !strings.Contains(l, "/internal/") || strings.Contains(l, "/zzverif/") || !strings.Contains(l, ".go:") {
			continue
		}
		if i := strings.LastIndex(l, " +0x"); i >= 0 {
			l = l[:i]
		}
		j := strings.LastIndex(l, ":")
		if j < 0 {
			continue
		}
		ln, err := strconv.Atoi(l[j+1:])
		if err != nil {
			continue
		}
		src, err := os.ReadFile(l[:j])
		if err != nil {
			return filepath.Base(l[:j])
		}
		sl := strings.Split(string(src), "\n")
		if ln >= 1 && ln <= len(sl) {
			return strings.TrimSpace(sl[ln-1])
		}
	}
	return ""
}

type objInfo struct {
	id   string
	kind string
	data []byte
	path string
}

var objs []objInfo

var treeFlat = map[string]string{}

func flattenNodes(prefix string, nodes []*object.Node) string {
	var b strings.Builder
	for _, n := range nodes {
		if n == nil {
			continue
		}
		if len(n.Children) > 0 {
			b.WriteString(flattenNodes(prefix+n.Name+"/", n.Children))
		} else {
			b.WriteString(prefix + n.Name + "=" + hex.EncodeToString(n.Hash) + ";")
		}
	}
	return b.String()
}

func loadAll(c caseT) {
	atomic.StoreInt64(&caseStart, time.Now().UnixNano())
	curCase.Store(c)
	mutations++
	if journal != nil {
		// the case in progress, for the driver to report if this process dies (fixed-size record, one pwrite)
		rec := make([]byte, 256)
		for i := range rec {
			rec[i] = ' '
		}
		js, _ := json.Marshal(c)
		copy(rec, js)
		journal.WriteAt(rec, 0)
	}
	guard(c, "NewConfig", func() { store.NewConfig(root) })
	guard(c, "NewIndex+lookups", func() {
		idx, err := store.NewIndex(root)
		if err != nil || idx == nil {
			return
		}
		// what every path-taking command does next with a staging area that loaded
		for _, q := range []string{"a", "d", "d/x", "k", "zz", ""} {
			idx.GetEntry([]byte(q))
			idx.IsRegisteredAsDirectory(q)
			idx.GetEntriesByDirectory(q)
		}
	})
	var head *store.Head
	var refs *store.Refs
	guard(c, "NewHead", func() { head, _ = store.NewHead(root) })
	guard(c, "NewRefs", func() { refs, _ = store.NewRefs(root) })
	if head != nil && refs != nil {
		guard(c, "NewReflog+Show+GetRecord", func() {
			rl, err := store.NewReflog(root, head, refs)
			if err == nil && rl != nil {
				rl.Show()
				for n := 0; n < 8; n++ {
					rl.GetRecord(n)
				}
			}
		})
	}
	guard(c, "NewIgnore", func() { store.NewIgnore(root) })
	for _, o := range objs {
		o := o
		guard(c, "GetObject", func() {
			h, _ := hex.DecodeString(o.id)
			got, err := object.GetObject(root, sha.SHA1(h))
			if err != nil {
				return
			}
			if got.Type.String() != o.kind || !bytes.Equal(got.Data, o.data) {
				report("damaged-object-not-returned", "GetObject", c, "GetObject(%s) returned err == nil with kind %s and %d bytes; the object of that id is a %s of %d bytes", o.id, got.Type, len(got.Data), o.kind, len(o.data))
				return
			}
			switch got.Type {
			case object.TreeObject:
				guard(c, "NewTree", func() {
					t, err := object.NewTree(root, got)
					if err == nil && t != nil {
						_ = t.String()
						object.GetNode(t.Children, "d/x")
						// a tree that loads is the tree that was stored, all the way down
						if want, ok := treeFlat[o.id]; ok {
							if have := flattenNodes("", t.Children); have != want {
								report("damaged-object-not-returned", "NewTree", c, "NewTree(%s) succeeded but lists %q; the intact repository lists %q", o.id, have, want)
							}
						}
					}
				})
			case object.CommitObject:
				guard(c, "NewCommit", func() {
					cm, err := object.NewCommit(got)
					if err == nil && cm != nil {
						_ = cm.String()
						// what every command does next with a commit: load its snapshot and its parents
						if t, err := object.GetObject(root, cm.Tree); err == nil && t != nil {
							object.NewTree(root, t)
						}
						for _, p := range cm.Parents {
							object.GetObject(root, p)
						}
					}
				})
			}
		})
	}
}

func inflate(b []byte) ([]byte, error) {
	zr, err := zlib.NewReader(bytes.NewReader(b))
	if err != nil {
		return nil, err
	}
	return io.ReadAll(zr)
}

func deflate(b []byte) []byte {
	var buf bytes.Buffer
	w := zlib.NewWriter(&buf)
	w.Write(b)
	w.Close()
	return buf.Bytes()
}

func kindOfFile(rel string) string {
	switch {
	case strings.HasPrefix(rel, "objects/"):
		return "object"
	case rel == "index":
		return "index"
	case rel == "HEAD":
		return "HEAD"
	case rel == "config":
		return "config"
	case strings.HasPrefix(rel, "refs/heads/"):
		return "branch"
	case rel == "logs/HEAD":
		return "reflog"
	case strings.HasPrefix(rel, "logs/"):
		return "branchlog"
	}
	return "other"
}

func copyTree(src, dst string) {
	filepath.Walk(src, func(p string, fi os.FileInfo, err error) error {
		if err != nil {
			return err
		}
		rel, _ := filepath.Rel(src, p)
		if fi.IsDir() {
			return os.MkdirAll(filepath.Join(dst, rel), 0o755)
		}
		b, _ := os.ReadFile(p)
		return os.WriteFile(filepath.Join(dst, rel), b, 0o644)
	})
}

func main() {
	wd := os.Args[1]
	tier := os.Args[2]
	shard, _ := strconv.Atoi(os.Args[3])
	nshards, _ := strconv.Atoi(os.Args[4])
	corpus := os.Args[5]
	if d, err := strconv.ParseInt(os.Getenv("VERIF_DEADLINE"), 10, 64); err == nil {
		deadline = time.Unix(d, 0)
	} else {
		deadline = time.Now().Add(time.Hour)
	}
	// keep the protocol on the real stdout; everything the loaders print goes to /dev/null
	realFd, _ := syscall.Dup(1)
	real := os.NewFile(uintptr(realFd), "protocol")
	out = json.NewEncoder(real)
	devnull, _ := os.OpenFile("/dev/null", os.O_WRONLY, 0)
	syscall.Dup2(int(devnull.Fd()), 1)
	syscall.Dup2(int(devnull.Fd()), 2)

	copyTree(corpus, wd)
	root = filepath.Join(wd, "root", ".goit")
	home = filepath.Join(wd, "home")
	os.Setenv("HOME", home)
	journal, _ = os.Create(filepath.Join(wd, "journal"))
	// watchdog: a single case may not take longer than 20 s
	go func() {
		for {
			time.Sleep(time.Second)
			st := atomic.LoadInt64(&caseStart)
			if st != 0 && time.Since(time.Unix(0, st)) > 20*time.Second {
				c, _ := curCase.Load().(caseT)
				report("terminates", "", c, "a loader did not return within 20 s")
				out.Encode(map[string]interface{}{"summary": true, "evaluations": atomic.LoadInt64(&evals), "distinct": mutations, "violations": nviol, "exhaustive": false})
				os.Exit(3)
			}
		}
	}()

	// inventory
	var files []string
	filepath.Walk(root, func(p string, fi os.FileInfo, err error) error {
		if err == nil && !fi.IsDir() {
			rel, _ := filepath.Rel(root, p)
			files = append(files, filepath.ToSlash(rel))
		}
		return nil
	})
	sort.Strings(files)
	for _, rel := range files {
		if kindOfFile(rel) != "object" {
			continue
		}
		raw, _ := os.ReadFile(filepath.Join(root, rel))
		all, err := inflate(raw)
		if err != nil {
			continue
		}
		i := bytes.IndexByte(all, 0)
		sp := bytes.IndexByte(all, ' ')
		objs = append(objs, objInfo{id: strings.ReplaceAll(strings.TrimPrefix(rel, "objects/"), "/", ""), kind: string(all[:sp]), data: all[i+1:], path: rel})
	}
	// what every tree lists in the intact repository (read with the implementation itself before anything is damaged)
	for _, o := range objs {
		if o.kind != "tree" {
			continue
		}
		h, _ := hex.DecodeString(o.id)
		if got, err := object.GetObject(root, sha.SHA1(h)); err == nil {
			if t, err := object.NewTree(root, got); err == nil && t != nil {
				treeFlat[o.id] = flattenNodes("", t.Children)
			}
		}
	}
	n := 0
	mine := func() bool { n++; return n%nshards == shard }
	subVals := []int{0x00, 0x0a, 0x20, '0', '9', '-', '/', ':', 0xff, -1} // -1 = original byte ^ 0x01
	if tier == "thorough" {
		subVals = nil
		for v := 0; v < 256; v++ {
			subVals = append(subVals, v)
		}
	}
	exhaustive := true
	mutateBytes := func(rel, kind, level string, orig []byte, write func(b []byte)) {
		c := caseT{File: rel, Kind: kind, Level: level}
		for i := 0; i <= len(orig); i++ {
			if time.Now().After(deadline) {
				exhaustive = false
				return
			}
			if i < len(orig) && mine() {
				c.Mut, c.Pos = "truncate", i
				write(orig[:i])
				loadAll(c)
			}
			if i < len(orig) && mine() {
				c.Mut, c.Pos = "delete", i
				write(append(append([]byte{}, orig[:i]...), orig[i+1:]...))
				loadAll(c)
			}
			if i < len(orig) {
				for _, v := range subVals {
					b := byte(v)
					if v == -1 {
						b = orig[i] ^ 0x01
					}
					if b == orig[i] || !mine() {
						continue
					}
					c.Mut, c.Pos, c.Val = "substitute", i, int(b)
					m := append([]byte{}, orig...)
					m[i] = b
					write(m)
					loadAll(c)
				}
			}
		}
		write(orig)
	}
	for _, rel := range files {
		kind := kindOfFile(rel)
		if kind == "other" || kind == "branchlog" {
			continue
		}
		full := filepath.Join(root, rel)
		orig, _ := os.ReadFile(full)
		mutateBytes(rel, kind, "raw", orig, func(b []byte) { os.WriteFile(full, b, 0o644) })
		if kind == "object" {
			if all, err := inflate(orig); err == nil {
				mutateBytes(rel, kind, "inflated", all, func(b []byte) {
					if bytes.Equal(b, all) {
						os.WriteFile(full, orig, 0o644)
					} else {
						os.WriteFile(full, deflate(b), 0o644)
					}
				})
			}
		}
	}
	// global config
	if orig, err := os.ReadFile(filepath.Join(home, ".goitconfig")); err == nil {
		mutateBytes("~/.goitconfig", "config", "raw", orig, func(b []byte) { os.WriteFile(filepath.Join(home, ".goitconfig"), b, 0o644) })
	}
	// swaps: the file of object B stored under the name of object A
	for _, a := range objs {
		for _, b := range objs {
			if a.id == b.id || !mine() {
				continue
			}
			pa, pb := filepath.Join(root, a.path), filepath.Join(root, b.path)
			origA, _ := os.ReadFile(pa)
			origB, _ := os.ReadFile(pb)
			os.WriteFile(pa, origB, 0o644)
			loadAll(caseT{File: a.path, Kind: "object", Mut: "swap", Other: b.path})
			os.WriteFile(pa, origA, 0o644)
		}
	}
	// token-level enumeration for the text decoders
	tokens := func(kind, rel string, alphabet []string, maxN int, apply func(text string) func()) {
		var rec func(cur []string)
		rec = func(cur []string) {
			if len(cur) > 0 && mine() {
				if time.Now().After(deadline) {
					exhaustive = false
					return
				}
				text := strings.Join(cur, "")
				undo := apply(text)
				loadAll(caseT{File: rel, Kind: kind, Mut: "tokens", Text: text})
				undo()
			}
			if len(cur) == maxN {
				return
			}
			for _, t := range alphabet {
				rec(append(append([]string{}, cur...), t))
			}
		}
		rec(nil)
	}
	fileApply := func(path string) func(text string) func() {
		return func(text string) func() {
			orig, err := os.ReadFile(path)
			os.WriteFile(path, []byte(text), 0o644)
			return func() {
				if err == nil {
					os.WriteFile(path, orig, 0o644)
				} else {
					os.Remove(path)
				}
			}
		}
	}
	nCfg, nHead, nLog, nTree, nCommit := 4, 4, 4, 4, 3
	if tier == "thorough" {
		nCfg, nHead, nLog, nTree, nCommit = 5, 4, 5, 5, 4
	}
	tokens("config", "config", []string{"[", "]", "=", "\t", "\n", "a", " "}, nCfg, fileApply(filepath.Join(root, "config")))
	tokens("HEAD", "HEAD", []string{"ref", ": ", "refs/heads/", "/", "main", "\n"}, nHead, fileApply(filepath.Join(root, "HEAD")))
	var commitID string
	for _, o := range objs {
		if o.kind == "commit" {
			commitID = o.id
		}
	}
	tokens("reflog", "logs/HEAD", []string{commitID, strings.Repeat("0", 40), " ", "\t", ": ", "commit", "x", "\n"}, nLog, fileApply(filepath.Join(root, "logs", "HEAD")))
	// tree bodies and commit bodies: stored as objects under their own id, then decoded
	objApply := func(kind object.Type) func(text string) func() {
		return func(text string) func() {
			o, err := object.NewObject(kind, []byte(text))
			if err != nil {
				return func() {}
			}
			o.Write(root)
			id := o.Hash.String()
			p := filepath.Join(root, "objects", id[:2], id[2:])
			objs = append(objs, objInfo{id: id, kind: kind.String(), data: []byte(text), path: "objects/" + id[:2] + "/" + id[2:]})
			return func() {
				os.Remove(p)
				objs = objs[:len(objs)-1]
			}
		}
	}
	var blobRaw string
	for _, o := range objs {
		if o.kind == "blob" {
			h, _ := hex.DecodeString(o.id)
			blobRaw = string(h)
		}
	}
	// object headers: token strings deflated and stored under the name of an existing blob
	var blobPath string
	for _, o := range objs {
		if o.kind == "blob" {
			blobPath = filepath.Join(root, o.path)
		}
	}
	if blobPath != "" {
		nHdr := 4
		if tier == "thorough" {
			nHdr = 5
		}
		tokens("object-header", "(object header)", []string{"blob", "tree", " ", "-", "0", "7", "99999999999", "\x00", "abcdefg"}, nHdr, func(text string) func() {
			orig, _ := os.ReadFile(blobPath)
			os.WriteFile(blobPath, deflate([]byte(text)), 0o644)
			return func() { os.WriteFile(blobPath, orig, 0o644) }
		})
	}
	tokens("tree-body", "(tree object)", []string{"100644", "040000", " ", "\x00", "a", blobRaw}, nTree, objApply(object.TreeObject))
	sign := "A <a@b.co> 1700000000 +0000"
	tokens("commit-body", "(commit object)", []string{"tree " + commitID + "\n", "parent " + commitID + "\n", "author " + sign + "\n", "author x\n", "committer " + sign + "\n", "\n", "m\n", "tree x\n"}, nCommit, objApply(object.CommitObject))

	out.Encode(map[string]interface{}{"summary": true, "evaluations": atomic.LoadInt64(&evals), "distinct": mutations, "violations": nviol, "exhaustive": exhaustive,
		"samples": []string{fmt.Sprintf("%d files of the corpus, %d objects; e.g. substitute byte 3 of the inflated root tree by 0x20 and re-deflate, then call every loader", len(files), len(objs))}})
}
