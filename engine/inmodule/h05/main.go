// h05: in-module enumeration for C05 (snapshot read-back): trees whose entry ids carry
// every byte value at every position, names over the component alphabet, decoded by
// NewTree and compared with what was encoded. usage: h05 <workdir> <tier> <shard> <nshards>
package main

import (
	"bytes"
	"encoding/hex"
	"encoding/json"
	"fmt"
	"os"
	"path/filepath"
	"strconv"

	"MODULE/internal/object"
)

type violation struct {
	Oracle  string      `json:"oracle"`
	Command string      `json:"command"`
	Tags    []string    `json:"tags"`
	Detail  string      `json:"detail"`
	Case    interface{} `json:"case"`
}

type entry struct {
	Name string `json:"name"`
	ID   string `json:"id"`
}

var (
	out      = json.NewEncoder(os.Stdout)
	evals    int
	distinct = map[string]bool{}
	nviol    int
	root     string
)

func report(oracle string, tags []string, es []entry, f string, args ...interface{}) {
	nviol++
	if nviol > 40 {
		return
	}
	out.Encode(violation{Oracle: oracle, Command: "tree-decode", Tags: tags, Detail: fmt.Sprintf(f, args...), Case: map[string]interface{}{"entries": es}})
}

func encode(es []entry) []byte {
	var b bytes.Buffer
	for _, e := range es {
		b.WriteString("100644 " + e.Name)
		b.WriteByte(0)
		id, _ := hex.DecodeString(e.ID)
		b.Write(id)
	}
	return b.Bytes()
}

func one(es []entry, tags []string) {
	evals++
	defer func() {
		if r := recover(); r != nil {
			report("no-panic", tags, es, "panic: %v", r)
		}
	}()
	body := encode(es)
	o, err := object.NewObject(object.TreeObject, body)
	if err != nil {
		report("tree-stores", tags, es, "NewObject: %v", err)
		return
	}
	if err := o.Write(root); err != nil {
		report("tree-stores", tags, es, "Write: %v", err)
		return
	}
	distinct[o.Hash.String()] = true
	got, err := object.GetObject(root, o.Hash)
	if err != nil {
		report("tree-reads-back", tags, es, "GetObject: %v", err)
		return
	}
	t, err := object.NewTree(root, got)
	if err != nil {
		report("tree-reads-back", tags, es, "NewTree rejects a tree of %d blob entries: %v", len(es), err)
		return
	}
	if len(t.Children) != len(es) {
		report("tree-reads-back", tags, es, "NewTree returned %d children for %d entries", len(t.Children), len(es))
		return
	}
	for i, c := range t.Children {
		if c.Name != es[i].Name || c.Hash.String() != es[i].ID || len(c.Children) != 0 {
			report("tree-reads-back", tags, es, "child %d read as (%q, %s, %d children), encoded (%q, %s)", i, c.Name, c.Hash, len(c.Children), es[i].Name, es[i].ID)
			return
		}
	}
	os.Remove(filepath.Join(root, "objects", o.Hash.String()[:2], o.Hash.String()[2:]))
}

func main() {
	root = filepath.Join(os.Args[1], ".goit")
	shard, _ := strconv.Atoi(os.Args[3])
	nshards, _ := strconv.Atoi(os.Args[4])
	os.MkdirAll(filepath.Join(root, "objects"), 0o755)
	n := 0
	mine := func() bool { n++; return n%nshards == shard }
	base := bytes.Repeat([]byte{0x61}, 20)
	mk := func(pos int, v byte) string {
		b := append([]byte{}, base...)
		b[pos] = v
		return hex.EncodeToString(b)
	}
	plain := hex.EncodeToString(bytes.Repeat([]byte{0x62}, 20))
	names := []string{"d", "d-x", "d.c", "d0", "d x", "ad", "D", "a+b", "a(b", "a_b", "é", "d  x", " lead", "trail ", "100644", "040000 x"}
	// every byte value at every position: one-entry tree and the middle of a three-entry tree
	for pos := 0; pos < 20; pos++ {
		for v := 0; v < 256; v++ {
			tags := []string{fmt.Sprintf("id-byte-%02x", v)}
			if mine() {
				one([]entry{{"f", mk(pos, byte(v))}}, tags)
			}
			if mine() {
				one([]entry{{"a", plain}, {"f", mk(pos, byte(v))}, {"z", plain}}, tags)
			}
		}
	}
	// every name of the alphabet, alone and between two others; ids ending in 0x00/0x20
	for _, nm := range names {
		for _, id := range []string{plain, mk(19, 0), mk(19, 0x20), mk(0, 0x20), mk(0, '1')} {
			if mine() {
				one([]entry{{nm, id}}, []string{"name:" + nm})
			}
			if mine() {
				one([]entry{{"0", plain}, {nm, id}, {"zz", plain}}, []string{"name:" + nm})
			}
		}
	}
	out.Encode(map[string]interface{}{"summary": true, "evaluations": evals, "distinct": len(distinct), "violations": nviol, "exhaustive": true,
		"samples": []string{"tree [a, f(id with byte 0x20 at position 7), z] stored with Object.Write and decoded with NewTree"}})
}
