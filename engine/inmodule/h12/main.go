// h12: in-module exhaustive enumeration for C12 (commit metadata round trip in every
// time zone). usage: h12 <workdir> <tier> <shard> <nshards>
package main

import (
	"encoding/json"
	"fmt"
	"os"
	"regexp"
	"strconv"
	"strings"
	"time"

	"MODULE/internal/object"
)

type violation struct {
	Oracle  string      `json:"oracle"`
	Command string      `json:"command"`
	Tags    []string    `json:"tags"`
	Detail  string      `json:"detail"`
	Case    interface{} `json:"case"`
}

type caseT struct {
	OffsetMin int    `json:"offset_minutes"`
	Secs      int64  `json:"secs"`
	Name      string `json:"name"`
	Email     string `json:"email"`
	Message   string `json:"message"`
}

var (
	out      = json.NewEncoder(os.Stdout)
	evals    int
	distinct = map[string]bool{}
	nviol    int
	samples  []string
)

func tags(c caseT) []string {
	var t []string
	if c.OffsetMin < 0 {
		t = append(t, "utc-offset-negative")
	}
	if c.OffsetMin%60 != 0 {
		t = append(t, "utc-offset-fractional")
	}
	if strings.Contains(c.Message, "\n") {
		t = append(t, "message-multiline")
	}
	if c.Message == "" {
		t = append(t, "message-empty")
	}
	if strings.Contains(c.Name, "  ") || strings.ContainsAny(c.Name, ">@'") {
		t = append(t, "name-unusual")
	}
	return t
}

func report(oracle string, c caseT, f string, args ...interface{}) {
	nviol++
	if nviol > 60 {
		return
	}
	out.Encode(violation{Oracle: oracle, Command: "commit-metadata", Tags: tags(c), Detail: fmt.Sprintf(f, args...), Case: c})
}

var lineRe = regexp.MustCompile(`^(.*) <([^<>]*)> ([0-9]+) ([+-])([0-9]{2})([0-9]{2})$`)

func one(c caseT) {
	evals++
	defer func() {
		if r := recover(); r != nil {
			report("no-panic", c, "panic: %v", r)
		}
	}()
	loc := time.FixedZone("X", c.OffsetMin*60)
	ts := time.Unix(c.Secs, 0).In(loc)
	sign := object.Sign{Name: c.Name, Email: c.Email, Timestamp: ts}
	line := sign.String()
	distinct[line] = true
	m := lineRe.FindStringSubmatch(line)
	if m == nil {
		report("sign-line-git-form", c, "signature line %q is not of the form 'Name <email> <secs> +HHMM|-HHMM'", line)
		return
	}
	hh, _ := strconv.Atoi(m[5])
	mm, _ := strconv.Atoi(m[6])
	off := hh*60 + mm
	if m[4] == "-" {
		off = -off
	}
	secs, _ := strconv.ParseInt(m[3], 10, 64)
	if m[1] != c.Name || m[2] != c.Email || secs != c.Secs || off != c.OffsetMin {
		report("sign-line-git-form", c, "signature line %q does not carry name %q, e-mail %q, %d seconds, offset %+d minutes", line, c.Name, c.Email, c.Secs, c.OffsetMin)
		return
	}
	// the commit body as cmd/commit.go formats it, read back through NewObject + NewCommit
	tree := strings.Repeat("ab", 20)
	data := []byte(fmt.Sprintf("tree %s\nauthor %s\ncommitter %s\n\n%s\n", tree, sign, sign, c.Message))
	o, err := object.NewObject(object.CommitObject, data)
	if err != nil {
		report("commit-reads-back", c, "NewObject: %v", err)
		return
	}
	cm, err := object.NewCommit(o)
	if err != nil {
		report("commit-reads-back", c, "NewCommit rejects a commit written with signature %q: %v", line, err)
		return
	}
	for which, s := range map[string]object.Sign{"author": cm.Author, "committer": cm.Committer} {
		_, gotOff := s.Timestamp.Zone()
		if s.Name != c.Name || s.Email != c.Email || s.Timestamp.Unix() != c.Secs || gotOff != c.OffsetMin*60 {
			report("commit-reads-back", c, "%s read back as name %q, e-mail %q, %d seconds, offset %d s; written name %q, e-mail %q, %d seconds, offset %d s", which, s.Name, s.Email, s.Timestamp.Unix(), gotOff, c.Name, c.Email, c.Secs, c.OffsetMin*60)
			return
		}
	}
	if cm.Message != c.Message {
		report("message-reads-back", c, "message read back as %q, written %q", cm.Message, c.Message)
	}
	if len(cm.Parents) != 0 {
		report("commit-reads-back", c, "a commit written without parent is read back with parents %v", cm.Parents)
	}
	if cm.Tree.String() != tree {
		report("commit-reads-back", c, "tree read back as %s", cm.Tree)
	}
	if len(samples) < 5 && evals%1501 == 3 {
		samples = append(samples, fmt.Sprintf("%q + message %q", line, c.Message))
	}
}

func main() {
	tier := os.Args[2]
	shard, _ := strconv.Atoi(os.Args[3])
	nshards, _ := strconv.Atoi(os.Args[4])
	n := 0
	mine := func() bool { n++; return n%nshards == shard }
	instants := []int64{0, 1, 59, 86399, 1000000000, 1<<31 - 1, 1 << 31, 4102444800, 253402300799}
	names := []string{"A", "Al Bo", "Al  Bo", "é ü", "O'N", "a>b", "x@y", strings.Repeat("N", 200)}
	emails := []string{"a@b.co", "a.b+c-d_e@x-y.z9.org", "A9@a1.b2.info"}
	messages := []string{"", "m", "a: b", "l1\nl2", "l1\n\nl3", "\nlead", "trail\n", "é", strings.Repeat("x", 4096), "tree deadbeef", "author x", "l1\nparent " + strings.Repeat("0", 40), "100% of %s %d", "l1\ntree " + strings.Repeat("ab", 20) + "\nauthor A <a@b.co> 1 +0000"}
	// all 105 quarter-hour offsets x instants
	for off := -12 * 60; off <= 14*60; off += 15 {
		for _, s := range instants {
			if mine() {
				one(caseT{off, s, "Test User", "test@example.com", "m"})
			}
		}
	}
	_ = tier
	var offs []int
	for off := -12 * 60; off <= 14*60; off += 15 {
		offs = append(offs, off)
	}
	for _, off := range offs {
		for _, nm := range names {
			for _, em := range emails {
				for _, msg := range messages {
					if mine() {
						one(caseT{off, 1700000000, nm, em, msg})
					}
				}
			}
		}
	}
	out.Encode(map[string]interface{}{"summary": true, "evaluations": evals, "distinct": len(distinct), "violations": nviol, "samples": samples, "exhaustive": true})
}
