// h10: in-module DFS for C10 over ONE long-lived Refs/Head instance (this is where
// "kept sorted by every code path" is observable inside one process).
// usage: h10 <workdir> <tier> <shard> <nshards>
package main

import (
	"encoding/json"
	"fmt"
	"os"
	"path/filepath"
	"sort"
	"strconv"
	"strings"

	"MODULE/internal/object"
	"MODULE/internal/sha"
	"MODULE/internal/store"
)

type violation struct {
	Oracle  string      `json:"oracle"`
	Command string      `json:"command"`
	Tags    []string    `json:"tags"`
	Detail  string      `json:"detail"`
	Case    interface{} `json:"case"`
}

type op struct {
	Op   string `json:"op"` // add | delete | rename | update | switch
	Name string `json:"name"`
}

var (
	out      = json.NewEncoder(os.Stdout)
	evals    int
	distinct = map[string]bool{}
	nviol    int
	wd       string
	names    = []string{"main", "b", "ab", "a", "a.lock", "C", "c"}
	h1, h2   sha.SHA1
)

func report(oracle string, ops []op, f string, args ...interface{}) {
	nviol++
	if nviol > 40 {
		return
	}
	out.Encode(violation{Oracle: oracle, Command: "refs", Tags: []string{"live-instance"}, Detail: fmt.Sprintf(f, args...), Case: map[string]interface{}{"ops": ops}})
}

func mkCommit(root, msg string) sha.SHA1 {
	data := []byte("tree " + strings.Repeat("ab", 20) + "\nauthor A <a@b.co> 1700000000 +0000\ncommitter A <a@b.co> 1700000000 +0000\n\n" + msg + "\n")
	o, _ := object.NewObject(object.CommitObject, data)
	if err := o.Write(root); err != nil {
		panic(err)
	}
	return o.Hash
}

var setupDone bool

func setup(i int) (root string) {
	root = filepath.Join(wd, "r", ".goit")
	if !setupDone {
		os.RemoveAll(filepath.Dir(root))
		os.MkdirAll(filepath.Join(root, "refs", "heads"), 0o755)
		os.MkdirAll(filepath.Join(root, "objects"), 0o755)
		h1 = mkCommit(root, "one")
		h2 = mkCommit(root, "two")
		setupDone = true
	}
	es, _ := os.ReadDir(filepath.Join(root, "refs", "heads"))
	for _, e := range es {
		os.Remove(filepath.Join(root, "refs", "heads", e.Name()))
	}
	os.Remove(filepath.Join(root, "branch.tmp"))
	os.WriteFile(filepath.Join(root, "refs", "heads", "main"), []byte(h1.String()), 0o644)
	os.WriteFile(filepath.Join(root, "HEAD"), []byte("ref: refs/heads/main"), 0o644)
	return root
}

func diskBranches(root string) map[string]string {
	m := map[string]string{}
	es, _ := os.ReadDir(filepath.Join(root, "refs", "heads"))
	for _, e := range es {
		b, _ := os.ReadFile(filepath.Join(root, "refs", "heads", e.Name()))
		m[e.Name()] = string(b)
	}
	return m
}

func fmtMap(m map[string]string) string {
	var ks []string
	for k, v := range m {
		ks = append(ks, k+"="+v[:7])
	}
	sort.Strings(ks)
	return strings.Join(ks, " ")
}

func run(seq []op, idx int) {
	evals++
	defer func() {
		if r := recover(); r != nil {
			report("no-panic", seq, "panic: %v", r)
		}
	}()
	root := setup(idx)
	refs, err := store.NewRefs(root)
	if err != nil {
		panic(err)
	}
	head, err := store.NewHead(root)
	if err != nil {
		panic(err)
	}
	model := map[string]string{"main": h1.String()}
	cur := "main"
	for i, o := range seq {
		var err error
		wantErr := false
		_, exists := model[o.Name]
		switch o.Op {
		case "add":
			wantErr = exists
			err = refs.AddBranch(root, o.Name, h1)
			if !wantErr {
				model[o.Name] = h1.String()
			}
		case "delete":
			wantErr = !exists || o.Name == cur
			err = refs.DeleteBranch(root, cur, o.Name)
			if !wantErr {
				delete(model, o.Name)
			}
		case "update":
			wantErr = !exists
			err = refs.UpdateBranchHash(root, o.Name, h2)
			if !wantErr {
				model[o.Name] = h2.String()
			}
		case "switch":
			wantErr = !exists
			err = head.Update(refs, root, o.Name)
			if !wantErr {
				cur = o.Name
			}
		case "rename":
			// the sequence branch -r performs: rename in Refs, move HEAD, remove the old name
			wantErr = exists
			err = refs.RenameBranch(root, cur, o.Name)
			if err == nil {
				if err = head.Update(refs, root, o.Name); err == nil {
					err = refs.RemoveRenamedBranch(root, cur)
				}
			}
			if !wantErr {
				model[o.Name] = model[cur]
				delete(model, cur)
				cur = o.Name
			}
		}
		if (err != nil) != wantErr {
			report("refs-op-outcome", seq[:i+1], "%s %q returned error %v, expected error: %v (branches %s, current %s)", o.Op, o.Name, err, wantErr, fmtMap(model), cur)
			return
		}
		for _, n := range names {
			_, in := model[n]
			if refs.IsBranchExist(n) != in {
				report("isbranchexist-exact", seq[:i+1], "after %s %q: IsBranchExist(%q) = %v, stored branches %s", o.Op, o.Name, n, !in, fmtMap(model))
				return
			}
		}
		if d := diskBranches(root); fmtMap(d) != fmtMap(model) {
			report("refs-on-disk-exact", seq[:i+1], "after %s %q: refs/heads holds {%s}, expected {%s}", o.Op, o.Name, fmtMap(d), fmtMap(model))
			return
		}
		hb, _ := os.ReadFile(filepath.Join(root, "HEAD"))
		if string(hb) != "ref: refs/heads/"+cur || head.Reference != cur {
			report("head-follows", seq[:i+1], "after %s %q: HEAD file %q, Head.Reference %q, expected branch %q", o.Op, o.Name, hb, head.Reference, cur)
			return
		}
	}
	distinct[fmtMap(model)+"|"+cur] = true
	// a fresh load agrees
	re, err := store.NewRefs(root)
	if err != nil {
		report("refs-reload", seq, "NewRefs after the history: %v", err)
		return
	}
	for _, n := range names {
		_, in := model[n]
		if re.IsBranchExist(n) != in {
			report("refs-reload", seq, "fresh load: IsBranchExist(%q) = %v, stored %s", n, !in, fmtMap(model))
			return
		}
	}
}

func main() {
	wd = os.Args[1]
	tier := os.Args[2]
	shard, _ := strconv.Atoi(os.Args[3])
	nshards, _ := strconv.Atoi(os.Args[4])
	depth := 3
	if tier == "thorough" {
		depth = 4
	}
	var alphabet []op
	for _, k := range []string{"add", "delete", "rename", "update", "switch"} {
		for _, n := range names {
			alphabet = append(alphabet, op{k, n})
		}
	}
	n := 0
	var dfs func(prefix []op)
	dfs = func(prefix []op) {
		if len(prefix) == depth {
			n++
			if n%nshards == shard {
				run(prefix, shard)
			}
			return
		}
		for _, o := range alphabet {
			dfs(append(append([]op{}, prefix...), o))
		}
	}
	dfs(nil)
	// many branches (binary search over more than a handful of names): 14 names added in three orders,
	// then every second one deleted, one renamed, all queried after every call
	if shard == 0 {
		many := []string{"m01", "b", "zz", "Ab", "a", "k.lock", "k", "C", "c", "m10", "m02", "y-1", "y_1", "q"}
		saved := names
		names = append([]string{"main"}, many...)
		orders := [][]string{many, nil, nil}
		for i := len(many) - 1; i >= 0; i-- {
			orders[1] = append(orders[1], many[i])
		}
		for i := 0; i < len(many); i += 2 {
			orders[2] = append(orders[2], many[i])
		}
		for i := 1; i < len(many); i += 2 {
			orders[2] = append(orders[2], many[i])
		}
		for _, ord := range orders {
			var seq []op
			for _, nm := range ord {
				seq = append(seq, op{"add", nm})
			}
			for i, nm := range ord {
				if i%2 == 0 {
					seq = append(seq, op{"delete", nm})
				} else {
					seq = append(seq, op{"update", nm})
				}
			}
			seq = append(seq, op{"switch", ord[1]}, op{"rename", "renamed"}, op{"add", ord[0]}, op{"switch", ord[0]}, op{"delete", "renamed"})
			run(seq, shard)
		}
		names = saved
	}
	out.Encode(map[string]interface{}{"summary": true, "evaluations": evals, "distinct": len(distinct), "violations": nviol, "exhaustive": true,
		"samples": []string{"add ab; add a; rename a.b; delete main  (one live Refs+Head instance; every name queried after every call)"}})
}
