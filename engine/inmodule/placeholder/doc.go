// Package placeholder keeps the embedded directory non-empty.
package placeholder
