// Package vos is the file-system seam: the repository's sources are compiled with
// their import of "os" swapped for this package (nothing else in them changes).
// With no VERIF_* variable set every function is a pass-through to package os.
//
//	VERIF_TRACE=<file>       append one line per operation point
//	VERIF_CRASH_AT=<k>       os.Exit(137) immediately before performing point k
//	VERIF_FAIL_AT=<k>:<err>  point k fails with EIO|ENOSPC|EACCES|EPERM|EEXIST and touches nothing
//
// Operation points are numbered from 0 in execution order. Stat-like calls are not
// points. Only operations on regular paths opened through the seam are points;
// Stdin/Stdout/Stderr are passed through.
package vos

import (
	"fmt"
	"io"
	"io/fs"
	stdos "os"
	"path/filepath"
	"runtime"
	"strconv"
	"strings"
	"syscall"
	"time"
)

var (
	counter   int
	traceFile *stdos.File
	crashAt   = -1
	failAt    = -1
	failErr   error
	active    bool
)

func init() {
	if p := stdos.Getenv("VERIF_TRACE"); p != "" {
		f, err := stdos.OpenFile(p, stdos.O_WRONLY|stdos.O_CREATE|stdos.O_APPEND, 0o644)
		if err == nil {
			traceFile = f
			active = true
		}
	}
	if s := stdos.Getenv("VERIF_CRASH_AT"); s != "" {
		if n, err := strconv.Atoi(s); err == nil {
			crashAt = n
			active = true
		}
	}
	if s := stdos.Getenv("VERIF_FAIL_AT"); s != "" {
		parts := strings.SplitN(s, ":", 2)
		if n, err := strconv.Atoi(parts[0]); err == nil {
			failAt = n
			failErr = syscall.EIO
			if len(parts) == 2 {
				switch parts[1] {
				case "ENOSPC":
					failErr = syscall.ENOSPC
				case "EACCES":
					failErr = syscall.EACCES
				case "EPERM":
					failErr = syscall.EPERM
				case "EEXIST":
					failErr = syscall.EEXIST
				}
			}
			active = true
		}
	}
}

func site() string {
	pcs := make([]uintptr, 32)
	n := runtime.Callers(3, pcs)
	frames := runtime.CallersFrames(pcs[:n])
	for {
		fr, more := frames.Next()
		if fr.Function != "" && !strings.Contains(fr.Function, "/zzverif/") && !strings.HasPrefix(fr.Function, "runtime.") {
			// first frame outside the seam; report it if it belongs to a module source file
			return fmt.Sprintf("%s:%d %s", fr.File, fr.Line, fr.Function)
		}
		if !more {
			break
		}
	}
	return "?"
}

// point registers one operation point. It returns a non-nil error when the point
// must fail instead of being performed.
func point(kind, op, path string, nbytes int, modifies bool) error {
	if !active {
		return nil
	}
	k := counter
	counter++
	if traceFile != nil {
		m := 0
		if modifies {
			m = 1
		}
		fmt.Fprintf(traceFile, "%d\t%s\t%d\t%d\t%q\t%s\n", k, kind, m, nbytes, path, site())
	}
	if k == crashAt {
		if traceFile != nil {
			traceFile.Close()
		}
		stdos.Exit(137)
	}
	if k == failAt {
		return &fs.PathError{Op: op, Path: path, Err: failErr}
	}
	return nil
}

// File wraps *os.File so that reads and writes made through any interface
// (io.Writer, io.Reader, ...) pass through the seam.
type File struct {
	*stdos.File
	std bool
}

var (
	Stdin  = &File{stdos.Stdin, true}
	Stdout = &File{stdos.Stdout, true}
	Stderr = &File{stdos.Stderr, true}
)

func Exit(code int) {
	if traceFile != nil {
		traceFile.Close()
	}
	stdos.Exit(code)
}

func wrap(f *stdos.File, err error) (*File, error) {
	if err != nil {
		return nil, err
	}
	return &File{File: f}, nil
}

func NewFile(fd uintptr, name string) *File {
	f := stdos.NewFile(fd, name)
	if f == nil {
		return nil
	}
	return &File{File: f, std: true}
}

func Pipe() (r *File, w *File, err error) {
	pr, pw, err := stdos.Pipe()
	if err != nil {
		return nil, nil, err
	}
	return &File{pr, true}, &File{pw, true}, nil
}

func Create(name string) (*File, error) {
	if err := point("create", "open", name, 0, true); err != nil {
		return nil, err
	}
	return wrap(stdos.Create(name))
}

func Open(name string) (*File, error) {
	if err := point("open", "open", name, 0, false); err != nil {
		return nil, err
	}
	return wrap(stdos.Open(name))
}

func OpenFile(name string, flag int, perm FileMode) (*File, error) {
	mod := flag&(stdos.O_CREATE|stdos.O_TRUNC) != 0
	kind := "open"
	if mod {
		kind = "create"
	}
	if err := point(kind, "open", name, 0, mod); err != nil {
		return nil, err
	}
	return wrap(stdos.OpenFile(name, flag, perm))
}

func CreateTemp(dir, pattern string) (*File, error) {
	if err := point("create", "open", filepath.Join(dir, pattern), 0, true); err != nil {
		return nil, err
	}
	return wrap(stdos.CreateTemp(dir, pattern))
}

func MkdirTemp(dir, pattern string) (string, error) {
	if err := point("mkdir", "mkdir", filepath.Join(dir, pattern), 0, true); err != nil {
		return "", err
	}
	return stdos.MkdirTemp(dir, pattern)
}

func ReadFile(name string) ([]byte, error) {
	if err := point("read", "open", name, 0, false); err != nil {
		return nil, err
	}
	return stdos.ReadFile(name)
}

// WriteFile is performed as its two modifications: truncate-create, then write.
func WriteFile(name string, data []byte, perm FileMode) error {
	f, err := OpenFile(name, stdos.O_WRONLY|stdos.O_CREATE|stdos.O_TRUNC, perm)
	if err != nil {
		return err
	}
	_, err = f.Write(data)
	if err1 := f.Close(); err1 != nil && err == nil {
		err = err1
	}
	return err
}

func ReadDir(name string) ([]DirEntry, error) {
	if err := point("readdir", "open", name, 0, false); err != nil {
		return nil, err
	}
	return stdos.ReadDir(name)
}

func Mkdir(name string, perm FileMode) error {
	if err := point("mkdir", "mkdir", name, 0, true); err != nil {
		return err
	}
	return stdos.Mkdir(name, perm)
}

// MkdirAll is unrolled into one mkdir point per missing component.
func MkdirAll(path string, perm FileMode) error {
	if !active {
		return stdos.MkdirAll(path, perm)
	}
	path = filepath.Clean(path)
	var missing []string
	p := path
	for {
		fi, err := stdos.Stat(p)
		if err == nil {
			if !fi.IsDir() {
				return &fs.PathError{Op: "mkdir", Path: p, Err: syscall.ENOTDIR}
			}
			break
		}
		missing = append(missing, p)
		parent := filepath.Dir(p)
		if parent == p {
			break
		}
		p = parent
	}
	for i := len(missing) - 1; i >= 0; i-- {
		if err := Mkdir(missing[i], perm); err != nil && !stdos.IsExist(err) {
			return err
		}
	}
	return nil
}

func Remove(name string) error {
	if err := point("remove", "remove", name, 0, true); err != nil {
		return err
	}
	return stdos.Remove(name)
}

func RemoveAll(path string) error {
	if err := point("remove", "unlinkat", path, 0, true); err != nil {
		return err
	}
	return stdos.RemoveAll(path)
}

func Rename(oldpath, newpath string) error {
	if err := point("rename", "rename", oldpath+" -> "+newpath, 0, true); err != nil {
		if pe, ok := err.(*fs.PathError); ok {
			return &stdos.LinkError{Op: "rename", Old: oldpath, New: newpath, Err: pe.Err}
		}
		return err
	}
	return stdos.Rename(oldpath, newpath)
}

func Truncate(name string, size int64) error {
	if err := point("write", "truncate", name, 0, true); err != nil {
		return err
	}
	return stdos.Truncate(name, size)
}

func Chmod(name string, mode FileMode) error {
	if err := point("chmod", "chmod", name, 0, true); err != nil {
		return err
	}
	return stdos.Chmod(name, mode)
}

func Chtimes(name string, atime time.Time, mtime time.Time) error {
	return stdos.Chtimes(name, atime, mtime)
}

func Symlink(oldname, newname string) error {
	if err := point("create", "symlink", newname, 0, true); err != nil {
		return err
	}
	return stdos.Symlink(oldname, newname)
}

func Link(oldname, newname string) error {
	if err := point("create", "link", newname, 0, true); err != nil {
		return err
	}
	return stdos.Link(oldname, newname)
}

func CopyFS(dir string, fsys fs.FS) error { return stdos.CopyFS(dir, fsys) }

func (f *File) Write(b []byte) (int, error) {
	if !f.std {
		if err := point("write", "write", f.Name(), len(b), true); err != nil {
			return 0, err
		}
	}
	return f.File.Write(b)
}

func (f *File) WriteString(s string) (int, error) {
	if !f.std {
		if err := point("write", "write", f.Name(), len(s), true); err != nil {
			return 0, err
		}
	}
	return f.File.WriteString(s)
}

func (f *File) WriteAt(b []byte, off int64) (int, error) {
	if !f.std {
		if err := point("write", "write", f.Name(), len(b), true); err != nil {
			return 0, err
		}
	}
	return f.File.WriteAt(b, off)
}

func (f *File) Truncate(size int64) error {
	if !f.std {
		if err := point("write", "truncate", f.Name(), 0, true); err != nil {
			return err
		}
	}
	return f.File.Truncate(size)
}

func (f *File) Read(b []byte) (int, error) {
	if !f.std {
		if err := point("read", "read", f.Name(), len(b), false); err != nil {
			return 0, err
		}
	}
	return f.File.Read(b)
}

func (f *File) ReadAt(b []byte, off int64) (int, error) {
	if !f.std {
		if err := point("read", "read", f.Name(), len(b), false); err != nil {
			return 0, err
		}
	}
	return f.File.ReadAt(b, off)
}

// ReadFrom and WriteTo hide the optimised paths of *os.File so that io.Copy goes
// through Read/Write above.
func (f *File) ReadFrom(r io.Reader) (int64, error) {
	return io.Copy(struct{ io.Writer }{f}, r)
}

func (f *File) WriteTo(w io.Writer) (int64, error) {
	return io.Copy(w, struct{ io.Reader }{f})
}

func (f *File) ReadDir(n int) ([]DirEntry, error) {
	if err := point("readdir", "readdirent", f.Name(), 0, false); err != nil {
		return nil, err
	}
	return f.File.ReadDir(n)
}

func (f *File) Readdir(n int) ([]FileInfo, error) {
	if err := point("readdir", "readdirent", f.Name(), 0, false); err != nil {
		return nil, err
	}
	return f.File.Readdir(n)
}

func (f *File) Readdirnames(n int) ([]string, error) {
	if err := point("readdir", "readdirent", f.Name(), 0, false); err != nil {
		return nil, err
	}
	return f.File.Readdirnames(n)
}

func (f *File) Close() error {
	if f == nil {
		return stdos.ErrInvalid
	}
	return f.File.Close()
}
