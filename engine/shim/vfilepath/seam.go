// Package vfilepath routes the directory-reading helpers of path/filepath (Walk, WalkDir,
// Glob) through the vos seam, so that their readdir operations are operation points too.
// Everything else is re-exported unchanged.
package vfilepath

import (
	"io/fs"
	stdos "os"
	stdfilepath "path/filepath"
	"sort"

	vos "MODULE/internal/zzverif/vos"
)

// WalkDir mirrors filepath.WalkDir (lexical order, SkipDir/SkipAll semantics) on top of vos.ReadDir.
func WalkDir(root string, fn fs.WalkDirFunc) error {
	info, err := stdos.Lstat(root)
	if err != nil {
		err = fn(root, nil, err)
	} else {
		err = walkDir(root, fs.FileInfoToDirEntry(info), fn)
	}
	if err == stdfilepath.SkipDir || err == stdfilepath.SkipAll {
		return nil
	}
	return err
}

func walkDir(path string, d fs.DirEntry, fn fs.WalkDirFunc) error {
	if err := fn(path, d, nil); err != nil || !d.IsDir() {
		if err == stdfilepath.SkipDir && d.IsDir() {
			err = nil
		}
		return err
	}
	dirs, err := vos.ReadDir(path)
	if err != nil {
		err = fn(path, d, err)
		if err != nil {
			if err == stdfilepath.SkipDir && d.IsDir() {
				err = nil
			}
			return err
		}
	}
	for _, d1 := range dirs {
		if err := walkDir(stdfilepath.Join(path, d1.Name()), d1, fn); err != nil {
			if err == stdfilepath.SkipDir {
				break
			}
			return err
		}
	}
	return nil
}

// Walk mirrors filepath.Walk on top of vos.ReadDir.
func Walk(root string, fn WalkFunc) error {
	info, err := stdos.Lstat(root)
	if err != nil {
		err = fn(root, nil, err)
	} else {
		err = walk(root, info, fn)
	}
	if err == stdfilepath.SkipDir || err == stdfilepath.SkipAll {
		return nil
	}
	return err
}

func walk(path string, info fs.FileInfo, fn WalkFunc) error {
	if !info.IsDir() {
		return fn(path, info, nil)
	}
	ents, err := vos.ReadDir(path)
	var names []string
	for _, e := range ents {
		names = append(names, e.Name())
	}
	sort.Strings(names)
	err1 := fn(path, info, err)
	if err != nil || err1 != nil {
		return err1
	}
	for _, name := range names {
		filename := stdfilepath.Join(path, name)
		fi, err := stdos.Lstat(filename)
		if err != nil {
			if err := fn(filename, fi, err); err != nil && err != stdfilepath.SkipDir {
				return err
			}
		} else {
			err = walk(filename, fi, fn)
			if err != nil {
				if !fi.IsDir() || err != stdfilepath.SkipDir {
					return err
				}
			}
		}
	}
	return nil
}

// Glob is not used by the repository; it is passed through (its directory reads are not operation points).
func Glob(pattern string) ([]string, error) { return stdfilepath.Glob(pattern) }
