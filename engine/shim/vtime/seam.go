// Package vtime is the clock seam: the repository's sources are compiled with their
// import of "time" swapped for this package. With VERIF_NOW=<unix seconds> set,
// Now() returns that instant (in time.Local, so TZ still decides the offset);
// otherwise it is the real clock.
package vtime

import (
	stdos "os"
	"strconv"
	stdtime "time"
)

var (
	fixed    bool
	fixedSec int64
)

func init() {
	if s := stdos.Getenv("VERIF_NOW"); s != "" {
		if n, err := strconv.ParseInt(s, 10, 64); err == nil {
			fixed, fixedSec = true, n
		}
	}
}

func Now() Time {
	if fixed {
		return stdtime.Unix(fixedSec, 0)
	}
	return stdtime.Now()
}

func Since(t Time) Duration { return Now().Sub(t) }
func Until(t Time) Duration { return t.Sub(Now()) }
