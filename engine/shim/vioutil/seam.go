// Package vioutil routes the deprecated io/ioutil file helpers through the vos seam.
package vioutil

import (
	"io/fs"
	stdos "os"

	vos "MODULE/internal/zzverif/vos"
)

func ReadFile(name string) ([]byte, error) { return vos.ReadFile(name) }

func WriteFile(name string, data []byte, perm fs.FileMode) error {
	return vos.WriteFile(name, data, perm)
}

func ReadDir(name string) ([]fs.FileInfo, error) {
	es, err := vos.ReadDir(name)
	if err != nil {
		return nil, err
	}
	out := make([]fs.FileInfo, 0, len(es))
	for _, e := range es {
		fi, err := e.Info()
		if err != nil {
			return nil, err
		}
		out = append(out, fi)
	}
	return out, nil
}

func TempFile(dir, pattern string) (*vos.File, error) { return vos.CreateTemp(dir, pattern) }
func TempDir(dir, pattern string) (string, error)     { return vos.MkdirTemp(dir, pattern) }

var _ = stdos.Getenv
