package main

import (
	"fmt"
	"sort"
	"strings"
	"sync/atomic"
)

func init() { registry["C16"] = checkC16 }

var c16n struct{ points, runs, same, failed, followUps int64 }

func c16Trans(thorough bool) func(c *Ctx, pre *Node, st Step, res *Result, post *State) ([]Violation, bool) {
	return func(c *Ctx, pre *Node, st Step, res *Result, post *State) ([]Violation, bool) {
		if st.Op != "run" {
			return nil, true
		}
		pa, qa := pre.Abs(), post.Abs()
		ff, ffPost, ops := c.TraceRun(pre.State, st)
		if ffPost.Key() != post.Key() || ff.Exit != res.Exit {
			harnessFatal("the traced run of %s differs from the plain run: not deterministic", st)
		}
		var vs []Violation
		baseTags := stateTags(pa)
		for _, op := range ops {
			switch op.Kind {
			case "create", "open", "read", "readdir", "write", "mkdir", "rename", "remove":
			default:
				continue
			}
			errnos := []string{"EIO"}
			if op.Kind == "readdir" {
				errnos = append(errnos, "EACCES") // "cannot list it, skip it" is tempting exactly for this class
			}
			if op.Kind == "rename" {
				// the errno classes a caller might be tempted to read as "somebody else has done it already"
				errnos = append(errnos, "EACCES", "EEXIST")
			}
			if thorough {
				switch op.Kind {
				case "create":
					errnos = append(errnos, "ENOSPC", "EACCES")
				case "write", "mkdir":
					errnos = append(errnos, "ENOSPC")
				case "open":
					errnos = append(errnos, "EACCES")
				case "rename", "remove":
					errnos = append(errnos, "EPERM")
				}
			}
			tgt := c.targetClass(op.Path)
			for _, en := range errnos {
				atomic.AddInt64(&c16n.points, 1)
				inj := fmt.Sprintf("VERIF_FAIL_AT=%d:%s", op.K, en)
				r, got := c.InjectRun(pre.State, st, inj)
				atomic.AddInt64(&c16n.runs, 1)
				tags := unionTags(baseTags, []string{"fault:" + op.Kind + ":" + en, "target:" + tgt})
				add := func(oracle, f string, args ...interface{}) {
					if r.Panicked() {
						oracle += "-panic"
					}
					vs = append(vs, Violation{Oracle: oracle, Command: st.Cmd(), Tags: tags, Site: op.SiteText(), Binary: "goit-v (seam build)", Inject: inj,
						Detail: fmt.Sprintf("op %d (%s %s) fails with %s: ", op.K, op.Kind, tgt, en) + fmt.Sprintf(f, args...) + outputTail(r)})
				}
				same := r.Exit == ff.Exit && r.Stdout == ff.Stdout && got.Key() == post.Key()
				switch {
				case r.Panicked() || (r.Exit != 0 && r.Exit != 1):
					add("fault-no-crash", "the command crashed (exit %d)", r.Exit)
				case same:
					atomic.AddInt64(&c16n.same, 1)
				case r.Exit == 0:
					what := "a different repository state"
					if got.Key() == post.Key() {
						what = "different output"
					}
					add("fault-reported", "the command reported success (exit 0) but produced %s than the run without the failure", what)
				default:
					atomic.AddInt64(&c16n.failed, 1)
				}
				ga := got.Abs()
				seen := map[string]bool{}
				for _, p := range ga.Fsck() {
					if !seen[p.Class] {
						seen[p.Class] = true
						add("fsck:"+p.Class, "%s", p.Msg)
					}
				}
				for name, o := range pa.Objects {
					po, ok := ga.Objects[name]
					if o.Err == nil && (!ok || po.Err != nil || po.Kind != o.Kind || string(po.Body) != string(o.Body)) {
						add("stored-objects-intact", "object %s that was intact before the command is damaged or gone", name)
						break
					}
				}
				// a branch that moved must name exactly the fault-free tip
				for n, v := range ga.Branches {
					if old, had := pa.Branches[n]; had && old == v {
						continue
					}
					if nw, has := qa.Branches[n]; !has || nw != v {
						add("advanced-branch-is-fault-free-tip", "branch %q moved to %q; without the failure it holds %q", n, v, qa.Branches[n])
						break
					}
				}
				// the next command on the disk the failed command left behind
				if r.Exit != 0 {
					atomic.AddInt64(&c16n.followUps, int64(followUps(c, pre.State, pa, got, st, add)))
				}
			}
		}
		return vs, true
	}
}

func checkC16(e *RunEnv) *CheckResult {
	spec := &Spec{
		Seeds:      corpusSeeds(),
		Depth: e.depth(2, 4),
		Steps:      corpusSteps,
		CheckTrans: c16Trans(e.Thorough()),
	}
	res := runSpec(e, spec, func(x *Explorer, cov map[string]interface{}) {
		cov["fault_positions"] = int(c16n.points)
		cov["fault_runs"] = int(c16n.runs)
		cov["follow_up_runs"] = int(c16n.followUps)
		cov["runs_with_identical_result"] = int(c16n.same)
		cov["runs_reported_as_failure"] = int(c16n.failed)
		cov["evaluations"] = int(c16n.runs)
		cov["distinct_nontrivial"] = int(c16n.failed)
		cov["rule"] = "corpus = every transition of a BFS (depth bound) over one representative of each modifying command from six seed states; for each transition the operation trace is recorded through the file-system seam and the command is re-run once per (operation point of kind create/open/read/readdir/write/mkdir/rename/remove, errno class), that one operation failing without touching the disk; each run is judged against the fault-free run, and where the failed command changed the disk the next command (the same command again; with leftover temporary files also switch, switch -c, add ., commit) must leave a structurally sound repository; distinct_nontrivial = injected runs in which the fault changed the outcome and was reported as a failure"
		var kinds []string
		for k, n := range x.Outcomes {
			kinds = append(kinds, fmt.Sprintf("%s=%d", k, n))
		}
		sort.Strings(kinds)
		cov["corpus_outcomes"] = strings.Join(kinds, " ")
	})
	res.Level = "fault_enumeration"
	return res
}
