package main

import (
	"fmt"
	"strings"
	"sync"
)

func init() { registry["C11"] = checkC11 }

var reflogMemo sync.Map // state key -> *reflogView

type reflogView struct {
	res     *Result
	entries []ReflogEntry
}

func reflogOf(c *Ctx, s *State) *reflogView {
	if v, ok := reflogMemo.Load(s.Key()); ok {
		return v.(*reflogView)
	}
	r, _ := c.Probe(s, nil, "reflog")
	v := &reflogView{res: r, entries: ParseReflog(r.Stdout)}
	reflogMemo.Store(s.Key(), v)
	return v
}

func messageTags(msg string) []string {
	var t []string
	if strings.Contains(msg, ": ") {
		t = append(t, "message-has-colon-space")
	}
	if strings.Contains(msg, "\t") {
		t = append(t, "message-has-tab")
	}
	if strings.Contains(msg, "\n") {
		t = append(t, "message-multiline")
	}
	if strings.HasPrefix(msg, " ") || strings.HasSuffix(msg, " ") {
		t = append(t, "message-edge-blank")
	}
	for _, b := range []byte(msg) {
		if b >= 0x80 {
			t = append(t, "message-non-ascii")
			break
		}
	}
	return t
}

// journalTags: features of the journal already on disk (independent reader).
func journalTags(a *Abs) []string {
	set := map[string]bool{}
	for _, l := range a.LogHEAD {
		r := ParseReflogLine(l)
		if !r.OK {
			set["journal-has-continuation-line"] = true
			continue
		}
		if r.To == strings.Repeat("0", 40) {
			set["journal-has-zero-id"] = true
		}
		if strings.Contains(r.Message, ": ") {
			set["journal-message-has-colon-space"] = true
		}
		if strings.Contains(r.Message, "\t") {
			set["journal-message-has-tab"] = true
		}
	}
	if len(a.LogHEAD) > 10 {
		set["journal-longer-than-10"] = true
	}
	var out []string
	for k := range set {
		out = append(out, k)
	}
	return out
}

func sameEntry(x, y ReflogEntry) bool {
	return x.ID7 == y.ID7 && x.Kind == y.Kind && x.Message == y.Message && (x.ID7 != "" || x.Raw == y.Raw)
}

func c11Trans(c *Ctx, pre *Node, st Step, res *Result, post *State) ([]Violation, bool) {
	cmd := st.Cmd()
	pa, qa := pre.Abs(), post.Abs()
	if _, ok := pa.S.Goit("logs/HEAD"); !ok && cmd != "commit" {
		return nil, true
	}
	tags := unionTags(st.Tags, journalTags(pa))
	var vs []Violation
	bad := func(oracle, f string, args ...interface{}) {
		vs = append(vs, Violation{Oracle: oracle, Command: cmd, Tags: tags, Detail: fmt.Sprintf(f, args...)})
	}
	var before []ReflogEntry
	if _, ok := pa.S.Goit("logs/HEAD"); ok {
		bv := reflogOf(c, pre.State)
		if bv.res.Exit != 0 {
			return nil, false // reported by the state oracle of the pre-state
		}
		before = bv.entries
	}
	if _, ok := qa.S.Goit("logs/HEAD"); !ok {
		if _, had := pa.S.Goit("logs/HEAD"); had {
			return []Violation{{Oracle: "journal-append-only", Command: cmd, Tags: tags, Detail: "the HEAD journal existed before the command and is gone after it"}}, false
		}
		return nil, true
	}
	av := reflogOf(c, post)
	if av.res.Exit != 0 {
		return nil, true // reported by the state oracle of the post-state
	}
	after := av.entries
	// (ii) earlier entries keep content and order, shifted by the number of new entries
	k := len(after) - len(before)
	if k < 0 {
		bad("journal-append-only", "reflog shrank from %d to %d entries", len(before), len(after))
		return vs, false
	}
	for i := range before {
		if !sameEntry(before[i], after[i+k]) {
			bad("journal-append-only", "entry HEAD@{%d} %q became HEAD@{%d} %q", i, before[i].Raw, i+k, after[i+k].Raw)
			return vs, false
		}
	}
	// (i) an applied commit / switch / reset adds an entry; HEAD@{0} shows the commit HEAD resolves to and the action
	if res.Exit == 0 {
		kind := map[string]string{"commit": "commit", "switch": "checkout", "reset": "reset"}[cmd]
		if kind != "" {
			tip := qa.Tip()
			switch {
			case k < 1:
				bad("journal-records-action", "a successful %s added no reflog entry", cmd)
			case len(after) == 0 || after[0].ID7 == "" || !strings.HasPrefix(tip, after[0].ID7) || after[0].Kind != kind:
				raw := ""
				if len(after) > 0 {
					raw = after[0].Raw
				}
				bad("journal-records-action", "after %s HEAD resolves to %s, HEAD@{0} shows %q (expected kind %s)", cmd, trunc(tip, 7), raw, kind)
			}
		}
	}
	return vs, len(vs) == 0
}

func c11State(c *Ctx, n *Node) []Violation {
	a := n.Abs()
	if _, ok := a.S.Goit("logs/HEAD"); !ok {
		return nil
	}
	tags := unionTags(stateTags(a), journalTags(a))
	var vs []Violation
	v := reflogOf(c, n.State)
	if v.res.Exit != 0 {
		o := "reflog-reads-back"
		if v.res.Panicked() {
			o += "-panic"
		}
		return []Violation{{Oracle: o, Command: "reflog", Tags: tags, Detail: "reflog failed on a journal Goit wrote" + outputTail(v.res), Trace: append(c.X.fullTrace(n, nil), Run("reflog"))}}
	}
	for i, en := range v.entries {
		if en.ID7 == "" || en.Pos != itoa(i) {
			vs = append(vs, Violation{Oracle: "reflog-reads-back", Command: "reflog", Tags: tags, Detail: fmt.Sprintf("line %d of the listing is not an entry for HEAD@{%d}: %q", i, i, en.Raw), Trace: append(c.X.fullTrace(n, nil), Run("reflog"))})
			return vs
		}
	}
	// (iv) reset HEAD@{n} resolves position n to the entry reflog shows at n
	for i, en := range v.entries {
		if n := len(v.entries); n > 30 && !(i <= 2 || (i >= 9 && i <= 11) || (i >= 99 && i <= 101) || (i >= 126 && i <= 129) || (i >= 254 && i <= 257) || i >= n-2) {
			continue // very long journals: the positions around the digit-count boundaries and both ends
		}
		st := Run("reset", "--soft", fmt.Sprintf("HEAD@{%d}", i))
		ptags := tags
		if i >= 10 {
			ptags = append(append([]string{}, tags...), "position-ge-10")
		}
		r, post := c.Probe(n.State, nil, st.Args...)
		qa := post.Abs()
		if en.ID7 == "0000000" {
			// an entry that records no commit: nothing to land on; refusal without change is the only sane outcome
			if r.Exit == 0 || post.Key() != n.State.Key() {
				vs = append(vs, Violation{Oracle: "reset-zero-entry-refused", Command: "reset", Tags: append(append([]string{}, tags...), "position-has-zero-id"),
					Detail: fmt.Sprintf("reset --soft HEAD@{%d} on an entry without commit: exit %d, state changed: %v", i, r.Exit, post.Key() != n.State.Key()), Trace: append(c.X.fullTrace(n, nil), st)})
				break
			}
			continue
		}
		if r.Exit != 0 || !strings.HasPrefix(qa.Tip(), en.ID7) {
			o := "reset-resolves-like-reflog"
			if r.Panicked() {
				o += "-panic"
			}
			vs = append(vs, Violation{Oracle: o, Command: "reset", Tags: ptags,
				Detail: fmt.Sprintf("reflog shows %s at HEAD@{%d}; reset --soft HEAD@{%d} exit %d left the branch at %s%s", en.ID7, i, i, r.Exit, trunc(qa.Tip(), 7), outputTail(r)),
				Trace:  append(c.X.fullTrace(n, nil), st)})
			break
		}
	}
	return vs
}

func checkC11(e *RunEnv) *CheckResult {
	msgs := []string{"m", "fix: x", "a\tb", "two\nlines", "s\nthree word line", "\nbody three words here", "100% %s done", strings.Repeat("word ", 1000), strings.Repeat("seventy thousand ", 4200), " lead", "trail ", "é", "x: y: z", forgedJournalMessage}
	spec := &Spec{
		Seeds: []Seed{{"S0", seedS0()}, {"S2", seedS2()}, {"chain12", seedChain(12)}, {"chain140", seedChain(140)}},
		Depth: e.depth(3, 4),
		Steps: func(n *Node) []Step {
			a := n.Abs()
			t := stateTags(a)
			var steps []Step
			msgs := msgs
			if !e.Thorough() && n.Depth >= 1 {
				msgs = msgs[:7] // quick: the full message alphabet at the first level, the sharpest seven deeper
			}
			content := fmt.Sprintf("edit %d\n", len(a.Objects))
			if len(a.LogHEAD) > 10 {
				// long journals: every position (incl. >= 10) is probed in each state; keep the fan-out small
				return []Step{Seq(Write("a", content), Run("add", "a"), Run("commit", "-m", "fix: x")).WithTags(unionTags(t, messageTags("fix: x"))...),
					Run("switch", "-c", "c").WithTags(t...), Run("reset", "--soft", "HEAD@{11}").WithTags(t...), Run("branch", "-r", "t").WithTags(t...)}
			}
			for _, m := range msgs {
				steps = append(steps, Seq(Write("a", content), Run("add", "a"), Run("commit", "-m", m)).WithTags(unionTags(t, messageTags(m))...))
			}
			for _, s := range []Step{Run("switch", "b"), Run("switch", "main"), Run("switch", "-c", "c"), Run("reset", "--soft", "HEAD@{1}"), Run("reset", "--soft", "HEAD@{0}"),
				Run("branch", "-r", "t"), Run("branch", "b2"), Run("branch", "-d", "b2"), Run("branch", "-d", "b"), Run("branch", "HEAD"), Run("branch", "-d", "HEAD")} {
				steps = append(steps, s.WithTags(t...))
			}
			return steps
		},
		CheckTrans: c11Trans,
		CheckState: c11State,
	}
	if e.Thorough() {
		spec.Seeds = append(spec.Seeds, Seed{"chain260", seedChain(260)})
	}
	res := runSpec(e, spec, nil)
	// second pass: the same journal machinery with the log lines written in a negative,
	// non-whole-hour time zone (the zone offset is part of every journal line)
	spec2 := *spec
	spec2.Env = []string{"TZ=VERIFTZ:-210"}
	spec2.Seeds = []Seed{{"S0", seedS0()}, {"S2", seedS2()}}
	spec2.Depth = e.pick(2, 3)
	res2 := runSpec(e, &spec2, nil)
	if replayOnly() {
		r1 := res.Rejudge
		res.Rejudge = func(v *Violation) []Violation {
			for _, x := range v.Env {
				if strings.HasPrefix(x, "TZ=VERIFTZ:") {
					return res2.Rejudge(v)
				}
			}
			return r1(v)
		}
		return res
	}
	res.Violations = append(res.Violations, res2.Violations...)
	for _, k := range []string{"states", "transitions", "traces_validated_against_impl", "evaluations", "distinct_nontrivial", "probes"} {
		a, _ := res.Coverage[k].(int)
		b, _ := res2.Coverage[k].(int)
		res.Coverage[k] = a + b
	}
	res.Coverage["negative_fractional_zone_pass_states"] = res2.Coverage["states"]
	if ex, _ := res2.Coverage["exhaustive"].(bool); !ex {
		res.Coverage["exhaustive"] = false
	}
	r1 := res.Rejudge
	res.Rejudge = func(v *Violation) []Violation {
		for _, x := range v.Env {
			if strings.HasPrefix(x, "TZ=VERIFTZ:") {
				return res2.Rejudge(v)
			}
		}
		return r1(v)
	}
	return res
}

// seedChain: n commits on main (journal of n entries).
func seedChain(n int) []Step {
	steps := seedS0()
	for i := 1; i <= n; i++ {
		steps = append(steps, Write("a", fmt.Sprintf("a v%d\n", i)), Run("add", "a"), Run("commit", "-m", fmt.Sprintf("c%d", i)))
	}
	return steps
}
