package main

import (
	"fmt"
	"os"
	"path/filepath"
	"sort"
	"strings"
	"time"
)

func init() { registry["C13"] = checkC13 }

// expectedWorktreeReport computes the three sets of C13 from the independently decoded
// index and the worktree bytes. free = paths whose ignore status the statement leaves open.
func expectedWorktreeReport(a *Abs) (modified, deleted, untracked []string, free map[string]bool) {
	I := a.IndexMap()
	ign := a.IgnoreRules()
	free = map[string]bool{}
	for p, id := range I {
		if data, ok := a.W[p]; !ok {
			deleted = append(deleted, p)
		} else if BlobID(data) != id {
			modified = append(modified, p)
		}
	}
	for p := range a.W {
		if _, ok := I[p]; ok {
			continue
		}
		switch ign.Ignored(p) {
		case no:
			untracked = append(untracked, p)
		case unknown:
			free[p] = true
		}
	}
	sort.Strings(modified)
	sort.Strings(deleted)
	sort.Strings(untracked)
	return
}

func filterFree(xs []string, free map[string]bool) []string {
	var out []string
	for _, x := range xs {
		if !free[x] {
			out = append(out, x)
		}
	}
	return out
}

// ProbeTouched runs a command after changing the mtime of every worktree file.
func (c *Ctx) ProbeTouched(s *State, args ...string) *Result {
	if err := c.SB.Materialise(s); err != nil {
		harnessFatal("materialise: %v", err)
	}
	old := time.Unix(1500000000, 0)
	for p := range s.Files {
		if strings.HasPrefix(p, "root/") && !strings.HasPrefix(p, "root/.goit/") {
			os.Chtimes(filepath.Join(c.SB.Dir, p), old, old)
		}
	}
	c.X.mu.Lock()
	c.X.Probes++
	c.X.mu.Unlock()
	return c.SB.Run(c.Bin, c.X.Spec.Env, args...)
}

func c13Judge(a *Abs, r *Result, tags []string, how string) []Violation {
	if r.Exit != 0 {
		o := "status-works"
		if r.Panicked() {
			o = "status-works-panic"
		}
		return []Violation{{Oracle: o, Command: "status", Tags: tags, Detail: "status failed" + how + outputTail(r)}}
	}
	rep := ParseStatus(r.Stdout)
	mod, del, unt, free := expectedWorktreeReport(a)
	var gotMod, gotDel []string
	for p, k := range rep.Unstaged {
		if k == "modified" {
			gotMod = append(gotMod, p)
		} else {
			gotDel = append(gotDel, p)
		}
	}
	sort.Strings(gotMod)
	sort.Strings(gotDel)
	var vs []Violation
	cmp := func(oracle string, got, want []string) {
		g, w := filterFree(got, free), filterFree(want, free)
		if fmt.Sprint(g) != fmt.Sprint(w) {
			vs = append(vs, Violation{Oracle: oracle, Command: "status", Tags: tags, Detail: fmt.Sprintf("status%s reports %q, expected %q", how, g, w)})
		}
	}
	cmp("modified-exact", gotMod, mod)
	cmp("deleted-exact", gotDel, del)
	cmp("untracked-exact", rep.Untracked, unt)
	return vs
}

func c13State(c *Ctx, n *Node) []Violation {
	a := n.Abs()
	if a.IndexErr != nil || !a.HasHead {
		return nil
	}
	tags := stateTags(a)
	if a.IgnoreRules() != nil {
		tags = append(tags, "has-ignore-file")
	}
	for p := range a.W {
		if strings.Count(p, "/") >= 3 {
			tags = append(tags, "depth-4")
			break
		}
	}
	trace := append(c.X.fullTrace(n, nil), Run("status"))
	r, post := c.Probe(n.State, nil, "status")
	var vs []Violation
	if post.Key() != n.State.Key() {
		vs = append(vs, Violation{Oracle: "probe-readonly", Command: "status", Tags: tags, Detail: "status changed the repository"})
	}
	vs = append(vs, c13Judge(a, r, tags, "")...)
	if len(vs) == 0 {
		r2 := c.ProbeTouched(n.State, "status")
		vs = append(vs, c13Judge(a, r2, append(tags, "mtimes-changed"), " (after changing every file's timestamp)")...)
	}
	for i := range vs {
		vs[i].Trace = trace
	}
	return vs
}

func checkC13(e *RunEnv) *CheckResult {
	paths := []string{"a", "d/x", "d/s/z", "n", "e/f/g/h", "d.c", "d0"}
	ignFiles := []string{"build/o", "x.log", "sub/y.log", "sub/build", "a.logx"}
	_ = ignFiles
	spec := &Spec{
		Seeds: []Seed{{"S0", seedS0()}, {"S1", seedS1()}, {"S5", seedS5()}, {"S1+siblings", append(seedS0(), Write("d/x", v1("d/x")), Write("d.c", v1("d.c")), Write("d0", v1("d0")), Write("d-x", v1("d-x")), Write("dd/k", v1("dd/k")), Run("add", "d", "d.c", "d0", "d-x", "dd"), Run("commit", "-m", "c1"))},
			// a directory with two sub-directories followed by a sibling directory, edits and untracked files in the last one
			{"two-subdirs-then-sibling", append(seedS0(), Write("lib/alpha/f", "f\n"), Write("lib/beta/g", "g\n"), Write("lib/gamma/h/i", "i\n"), Write("tools/t.txt", "t\n"), Write("zeta/z", "z\n"),
				Run("add", "lib", "tools", "zeta"), Run("commit", "-m", "c1"), Write("tools/t.txt", "edited\n"), Write("tools/new.txt", "new\n"), Write("zeta/new", "new\n"), Write("lib/beta/new", "new\n"))},
			{"ignore-without-slash-entries", append(seedS1(), Write(".goitignore", "*.log\n"), Write("old.log/t", "tracked beneath a directory named like a log\n"), Write("out/t", "tracked beneath out\n"), Run("add", "a"),
				Write("old.log/u", "untracked\n"), Write("sub/old.log/u", "untracked\n"), Write("out/u", "untracked\n"), Write("x.log", "ignored\n"))},
			{"S1+ignored-files-with-later-siblings", append(seedS1(), Write(".goitignore", "build/\n*.log\n"), Write("x.log", "l\n"), Write("y-later", "u\n"), Write("z-later/f", "u\n"), Write("sub/y.log", "l\n"), Write("sub/z-later", "u\n"), Write("build/o", "o\n"), Write("c-after-build", "u\n"))}},
		Depth: e.depth(3, 6),
		Steps: func(n *Node) []Step {
			a := n.Abs()
			var steps []Step
			for _, p := range paths {
				if d, ok := a.W[p]; ok {
					if string(d) != v2(p) {
						steps = append(steps, Write(p, v2(p)))
					} else {
						steps = append(steps, Write(p, v1(p)))
					}
					steps = append(steps, Delete(p))
				} else {
					steps = append(steps, Write(p, v1(p)))
				}
				steps = append(steps, Run("add", p), Run("rm", p))
			}
			if hasDirOnDisk(a, "d") {
				steps = append(steps, Rmdir("d"))
				// type change: the tracked directory d replaced by a regular file
				steps = append(steps, Seq(Rmdir("d"), Write("d", "now a file\n")))
			}
			steps = append(steps, Run("commit", "-m", "m"))
			if _, ok := a.W[".goitignore"]; ok {
				steps = append(steps, Delete(".goitignore"))
			} else {
				steps = append(steps, Write(".goitignore", "build/\n*.log\n"))
			}
			for _, p := range ignFiles {
				if d, ok := a.W[p]; !ok {
					steps = append(steps, Write(p, v1(p)))
				} else if string(d) == v1(p) {
					steps = append(steps, Write(p, v2(p)))
				}
			}
			steps = append(steps, Run("add", "x.log"), Run("add", "build"))
			return steps
		},
		CheckState: c13State,
	}
	var sweep int
	return runSpecWith(e, spec, func(x *Explorer) {
		base := x.BuildState(seedS0())
		if base == nil {
			return
		}
		var cs []Case
		for _, set := range subsetsUpTo(sharpNames, e.pick(3, 4)) {
			steps := sweepBase(set)
			first, last := set[0], set[len(set)-1]
			// an unstaged edit, a deletion from the working tree, untracked files next to tracked ones
			steps = append(steps, Write(first, v2(first)), Run("status"), Delete(last), Write("zz new", "new\n"), Write("d~/u", "untracked dir\n"), Run("status"))
			// the same text with CR LF line ends is a different file
			if strings.Contains(v1(first), "\n") {
				steps = append(steps, Write(set[0], strings.ReplaceAll(v1(set[0]), "\n", "\r\n")), Run("status"))
			}
			// an untracked file whose name differs from a tracked one only in the case of its letters
			if cv := swapCase(first); cv != first && !collides(cv, set) {
				steps = append(steps, Write(cv, "case variant, untracked\n"), Run("status"))
			}
			if dp := dirPrefixes(set); len(dp) > 0 {
				steps = append(steps, Rmdir(dp[0]), Run("status"))
			}
			cs = append(cs, Case{Base: base, BaseName: "S0", BaseSeed: seedS0(), Steps: steps, Probe: true})
		}
		// 200 tracked files (the index file exceeds 4 KiB several times over) and 900 (index > 64 KiB)
		for _, n := range []int{200, 900} {
			cs = append(cs, Case{Base: base, BaseName: "S0", BaseSeed: seedS0(), Steps: append(hugeDirSteps(n), Write("huge/file-0003.txt", "edited, not staged\n"), Write("v2/data/y", "the last tracked file in walk order, edited\n"), Write("v2/data/x", "edited as well\n"), Write("v1/data/y", "edited as well\n"),
				Write("huge/file-0100.txt", "edited, in the middle\n"), Write("huge/file-0149.txt", "edited\n"), Delete("huge/file-0150.txt"), Write("huge/new", "untracked\n"), Write("zz new", "untracked\n"), Run("status")), Probe: true})
		}
		// the same bytes under several names, and a file rewritten with the bytes of *another* tracked file: the report
		// compares each path with its own staged blob (every other generated content is derived from its path)
		cs = append(cs, Case{Base: base, BaseName: "S0", BaseSeed: seedS0(), Probe: true, Steps: []Step{
			Write("p1", "same bytes\n"), Write("p2", "same bytes\n"), Write("d/p3", "same bytes\n"), Write("q", v1("q")), Run("add", "p1", "p2", "d", "q"), Run("commit", "-m", "c1"), Run("status"),
			Write("p1", "edit 1\n"), Run("status"), Write("p1", "same bytes\n"), Write("p2", v1("q")), Run("status"), Write("q", "same bytes\n"), Run("status"),
			Delete("d/p3"), Write("u", "same bytes\n"), Write("d/u2", v1("q")), Run("status"), Run("add", "p2"), Run("status"), Run("rm", "p1"), Write("p1", "same bytes\n"), Run("status")}})
		sweep = x.RunCases(cs)
	}, func(x *Explorer, cov map[string]interface{}) {
		cov["name_sweep_cases"] = sweep
		cov["states"] = x.States + sweep
	})
}

func swapCase(s string) string {
	b := []byte(s)
	for i, c := range b {
		switch {
		case c >= 'a' && c <= 'z':
			b[i] = c - 32
		case c >= 'A' && c <= 'Z':
			b[i] = c + 32
		}
	}
	return string(b)
}

// collides: name equals, contains or lies beneath a member of set.
func collides(name string, set []string) bool {
	for _, m := range set {
		if m == name || strings.HasPrefix(m, name+"/") || strings.HasPrefix(name, m+"/") {
			return true
		}
	}
	return false
}
