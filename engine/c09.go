package main

import (
	"fmt"
	"strings"
)

func init() { registry["C09"] = checkC09 }

func checkC09(e *RunEnv) *CheckResult {
	paths := []string{"d/x", "d/y", "ad/x", "d.c", "a(b", "g", "d0", "n", "d/s/t/u", "d/n2", "big"}
	allPaths := append([]string{}, paths...)
	if !e.Thorough() {
		// quick: a smaller edit alphabet (the name sweep below covers the sibling names)
		paths = []string{"d/x", "d/y", "ad/x", "a(b", "g", "n", "d/s/t/u", "big"}
	}
	spellings := []string{"", ".", "@ROOT@/d/x", "@ROOT@/d", "../root/g", "@ROOT@", "d/", "./d", "d/.", "./g", "d//x", "nonexist/../g"}
	args := []string{"d/x", "d/y", "ad/x", "d.c", "a(b", "g", "d0", "n", "big", "d", "ad", "d/s", "d/s/t", "nope", "d/nope"}
	coreArgs := args
	pairs := [][]string{{"d/x", "ad/x"}, {"d", "g"}, {"g", "nope"}, {"nope", "g"}, {"g", "n"}, {"d/y", "d"}, {"d/n2", "d"}, {"d/s", "d"}}
	var base []Step
	base = append(base, seedS0()...)
	for _, p := range allPaths {
		base = append(base, Write(p, v1(p)))
	}
	// never-tracked files named like a tracked file plus ".tmp" (the name a careless "write, then rename" would use)
	base = append(base, Write("d/x.tmp", "not tracked\n"), Write("g.tmp", "not tracked\n"))
	// ... and one whose blob id contains two 0x00 bytes (it becomes part of every HEAD tree below)
	base = append(base, Write("d0", findContent("z", func(id string) bool { return strings.Count(id, "00") >= 3 })))
	seed1 := append(append([]Step{}, base...), Run("add", "d/x", "d/y", "d/s", "ad", "d.c", "a(b", "g", "d0", "big"), Run("commit", "-m", "c1"))
	seed2 := append(append([]Step{}, seed1...), Write("d/x", v2("d/x")), Run("add", "d/x"), Write("d/x", "d/x v3\n"), Delete("d/y"), Rmdir("ad"), Run("rm", "g"), Write("n", v1("n")), Run("add", "n"))
	spec := &Spec{
		Seeds: []Seed{{"all-committed", seed1}, {"mixed", seed2},
			// every tracked path removed (rm): the staging area is empty, HEAD is not
			{"everything-unstaged", append(append([]Step{}, seed1...), Run("rm", "d", "ad", "d.c", "a(b", "g", "d0", "big"))},
			// a committed directory replaced by a file of the same name, and staged
			{"dir-becomes-file", append(append([]Step{}, seedS0()...), Write("d/x/y", v1("d/x/y")), Write("g", v1("g")), Run("add", "d", "g"), Run("commit", "-m", "c1"), Write("d/x", "now a file\n"), Run("add", "d/x"))}},
		Depth: e.depth(3, 4),
		Steps: func(n *Node) []Step {
			a := n.Abs()
			var steps []Step
			if n.Seed == "everything-unstaged" && !e.Thorough() && n.Depth >= 2 {
				return nil // quick: this seed two levels deep only
			}
			args := coreArgs
			if e.Thorough() && n.Depth <= 1 {
				args = append(append([]string{}, spellings...), coreArgs...)
			}
			for _, x := range args {
				t := pathArgTags(a, []string{x})
				steps = append(steps, Run("restore", x).WithTags(t...), Run("restore", "--staged", x).WithTags(t...))
			}
			steps = append(steps, Run("restore", "g", "d", "ad/x").WithTags(pathArgTags(a, []string{"g", "d", "ad/x"})...), Run("restore", "--staged", "g", "d", "ad/x").WithTags(pathArgTags(a, []string{"g", "d", "ad/x"})...))
			// the same path twice (in two spellings) followed by another path: everything named is restored
			for _, tr := range [][]string{{"n", "./n", "d/x"}, {"d/x", "d", "g"}, {"g", "g", "ad/x"}} {
				t := pathArgTags(a, tr)
				steps = append(steps, Run(append([]string{"restore"}, tr...)...).WithTags(t...), Run(append([]string{"restore", "--staged"}, tr...)...).WithTags(t...))
			}
			steps = append(steps, Run("restore", "d/x", "--staged").WithTags(pathArgTags(a, []string{"d/x"})...), Run("restore", "d", "--staged").WithTags(pathArgTags(a, []string{"d"})...))
			for _, pr := range pairs {
				t := pathArgTags(a, pr)
				steps = append(steps, Run("restore", pr[0], pr[1]).WithTags(t...), Run("restore", "--staged", pr[0], pr[1]).WithTags(t...))
			}
			for _, p := range paths {
				if d, ok := a.W[p]; ok {
					if string(d) != v2(p) {
						steps = append(steps, Write(p, v2(p)))
					}
					steps = append(steps, Delete(p))
				} else {
					steps = append(steps, Write(p, v1(p)))
				}
				steps = append(steps, Run("add", p), Run("rm", p))
			}
			// an empty directory standing where a tracked file was
			for _, p := range []string{"g", "d/x"} {
				if _, onDisk := a.W[p]; !onDisk && !hasDirOnDisk(a, p) {
					steps = append(steps, Mkdir(p))
				}
			}
			if hasDirOnDisk(a, "d") {
				steps = append(steps, Rmdir("d"))
			}
			if hasDirOnDisk(a, "ad") {
				steps = append(steps, Rmdir("ad"))
			}
			steps = append(steps, Write("d/u", "untracked\n"), Run("add", "d"), Run("commit", "-m", "m"))
			return steps
		},
		CheckTrans: func(c *Ctx, pre *Node, st Step, res *Result, post *State) ([]Violation, bool) {
			if st.Cmd() != "restore" {
				return nil, true
			}
			pa, qa := pre.Abs(), post.Abs()
			// whatever the staging area looked like: every staged path refers to a stored blob
			for _, p := range qa.Fsck() {
				if p.Class == "index-entries-have-blobs" {
					return []Violation{{Oracle: "staged-entry-is-blob", Command: "restore", Tags: st.Tags, Detail: p.Msg}}, false
				}
			}
			outs := Allowed(pa, st)
			if outs == nil {
				return nil, true
			}
			if ok, why := MatchAny(outs, pa, qa, res, Components{I: true, W: true}); !ok {
				oracle := "restore-exact"
				if len(st.Args) > 1 && st.Args[1] == "--staged" {
					oracle = "restore-staged-exact"
				}
				if res.Panicked() {
					oracle += "-panic"
				}
				return []Violation{{Oracle: oracle, Command: "restore", Tags: st.Tags, Detail: "model disagrees: " + why + outputTail(res)}}, false
			}
			return nil, true
		},
	}
	var sweep int
	return runSpecWith(e, spec, func(x *Explorer) {
		base := x.BuildState(seedS0())
		if base == nil {
			return
		}
		var cs []Case
		for _, set := range subsetsUpTo(sharpNames, e.pick(2, 3)) {
			pre := sweepBase(set)
			for _, p := range set {
				pre = append(pre, Write(p, v2(p)))
			}
			last := set[len(set)-1]
			argsList := append(append([]string{}, set...), dirPrefixes(set)...)
			for _, arg := range argsList {
				// worktree mode: edits and one deletion are undone for exactly the named paths
				cs = append(cs, Case{Base: base, BaseName: "S0", BaseSeed: seedS0(), Steps: append(append([]Step{}, pre...), Delete(last), Run("restore", arg))})
				// --staged: staged edits, one staged removal, one staged new file
				st := append(append([]Step{}, pre...), Run(append([]string{"add"}, topLevel(set)...)...), Run("rm", last), Write("zz new", "n\n"), Run("add", "zz new"), Run("restore", "--staged", arg))
				cs = append(cs, Case{Base: base, BaseName: "S0", BaseSeed: seedS0(), Steps: st})
			}
		}
		// un-normalised, absolute and dot spellings on three states (see C04)
		for bi, b := range [][]Step{seed1, seed2} {
			bs := x.BuildState(b)
			if bs == nil {
				continue
			}
			for _, sp := range spellings {
				for _, mode := range [][]string{{"restore"}, {"restore", "--staged"}} {
					cs = append(cs, Case{Base: bs, BaseName: fmt.Sprintf("spelling-base-%d", bi), BaseSeed: b, Steps: []Step{Run(append(append([]string{}, mode...), sp)...).WithTags("spelling")}})
				}
			}
		}
		// sibling directories whose names extend one another ("lib-old/", "lib.d/" sort before "lib/"), all missing
		// from disk: each restored file's parent directory must be created, in whatever order the arguments name them
		// (the change C08-r8m1 — a "directory already made" cache keyed by string prefix — breaks restore as well)
		sib := append(append([]Step{}, seedS0()...), Write("lib-old/x.txt", "x1\n"), Write("lib.d/w", "w1\n"), Write("lib/y.txt", "y1\n"), Write("lib/zz/z", "z1\n"), Run("add", "lib-old", "lib.d", "lib"))
		if sb := x.BuildState(sib); sb != nil {
			gone := [][]Step{{Rmdir("lib-old"), Rmdir("lib.d"), Rmdir("lib")}, {Rmdir("lib-old"), Rmdir("lib")}, {Rmdir("lib.d"), Rmdir("lib")}, {Rmdir("lib")}}
			for _, g := range gone {
				for _, as := range [][]string{{"."}, {"lib-old", "lib.d", "lib"}, {"lib-old", "lib"}, {"lib.d/w", "lib/y.txt"}, {"lib", "lib-old"}, {"lib-old/x.txt", "lib/zz"}} {
					cs = append(cs, Case{Base: sb, BaseName: "sibling-dirs", BaseSeed: sib, Steps: append(append([]Step{}, g...), Run(append([]string{"restore"}, as...)...).WithTags("sibling-dirs-missing"))})
				}
			}
		}
		// the same bytes under several names (one blob id, three staged entries): restoring one name must not touch,
		// and must not be short-cut by, the others (every other generated content is derived from its path)
		tw := append(append([]Step{}, seedS0()...), Write("p1", "same bytes\n"), Write("p2", "same bytes\n"), Write("d/p3", "same bytes\n"), Write("q", v1("q")), Run("add", "p1", "p2", "d", "q"), Run("commit", "-m", "c1"))
		if tb := x.BuildState(tw); tb != nil {
			edits := [][]Step{{Write("p1", "edit 1\n"), Write("p2", "edit 2\n"), Delete("d/p3")}, {Delete("p1"), Write("p2", v1("q")), Write("d/p3", "edit 3\n")}, {Write("p1", "edit 1\n"), Run("add", "p1"), Run("rm", "p2"), Write("d/p3", "same bytes, longer\n"), Run("add", "d")}}
			for _, ed := range edits {
				for _, as := range [][]string{{"p1"}, {"p2"}, {"d"}, {"p1", "d/p3"}, {"."}} {
					cs = append(cs, Case{Base: tb, BaseName: "twin-content", BaseSeed: tw, Steps: append(append([]Step{}, ed...), Run(append([]string{"restore"}, as...)...).WithTags("twin-content"))},
						Case{Base: tb, BaseName: "twin-content", BaseSeed: tw, Steps: append(append([]Step{}, ed...), Run(append([]string{"restore", "--staged"}, as...)...).WithTags("twin-content"))})
				}
			}
		}
		sweep = x.RunCases(cs)
	}, func(x *Explorer, cov map[string]interface{}) {
		cov["name_sweep_cases"] = sweep
		cov["states"] = x.States + sweep
	})
}
