package main

import (
	"fmt"
	"strings"
)

func harnessNames() []string { return harnessList }

var harnessList = []string{}

func init() { registry["C03"] = checkC03 }

// idPool returns the hostile/valid id alphabet of a state with input tags.
type taggedArg struct {
	v    string
	tags []string
}

func idPool(a *Abs) []taggedArg {
	var out []taggedArg
	tip := a.Tip()
	if isHex40(tip) {
		out = append(out, taggedArg{tip, []string{"id:tip"}})
		if c, err := a.Commit(tip); err == nil {
			if len(c.Parents) > 0 {
				out = append(out, taggedArg{c.Parents[0], []string{"id:older-commit"}})
			}
			out = append(out, taggedArg{c.Tree, []string{"id:tree", "id-not-a-commit"}})
		}
		out = append(out, taggedArg{strings.ToUpper(tip), []string{"id:upper-case", "id-malformed"}})
		out = append(out, taggedArg{tip[:39], []string{"id:39-hex", "id-malformed"}})
	}
	for _, e := range a.Index {
		out = append(out, taggedArg{e.ID, []string{"id:blob", "id-not-a-commit"}})
		break
	}
	out = append(out, taggedArg{strings.Repeat("ab", 20), []string{"id:unknown"}})
	return out
}

var hostileNames = []taggedArg{
	{"b2", []string{"name:plain"}},
	{"a/b", []string{"name:has-slash", "ref-name-hostile"}},
	{"..", []string{"name:dotdot", "ref-name-hostile"}},
	{"../../HEAD", []string{"name:escapes-refs", "ref-name-hostile"}},
	{"../../index", []string{"name:escapes-refs", "ref-name-hostile"}},
	{".hidden", []string{"name:dot-leading"}},
	{"HEAD", []string{"name:HEAD"}},
	{"x: y", []string{"name:has-colon-space"}},
	{"a b", []string{"name:has-space"}},
	{"x\ny", []string{"name:has-newline", "ref-name-hostile"}},
	{"t\tu", []string{"name:has-tab"}},
	{"refs/heads/main", []string{"name:full-ref", "ref-name-hostile"}},
	{"heads/main", []string{"name:full-ref", "ref-name-hostile"}},
}

func stateTags(a *Abs) []string {
	var t []string
	if len(a.Branches) == 0 {
		t = append(t, "unborn")
	}
	for _, l := range a.LogHEAD {
		r := ParseReflogLine(l)
		if r.OK && r.To == strings.Repeat("0", 40) {
			t = append(t, "journal-has-zero-id")
			break
		}
	}
	if tip := a.Tip(); isHex40(tip) {
		if snap, err := a.Snapshot(tip); err == nil && len(snap) == 0 {
			t = append(t, "head-snapshot-empty")
		}
	}
	return t
}

// journalPositions returns for each n in 0..len the tags of `HEAD@{n}` computed by the
// independent reflog reader (position 0 = last line).
func journalPositions(a *Abs) [][]string {
	var out [][]string
	n := len(a.LogHEAD)
	for i := 0; i <= n; i++ {
		var t []string
		if i == n {
			t = append(t, "position-out-of-range")
		} else {
			r := ParseReflogLine(a.LogHEAD[n-1-i])
			if r.OK && r.To == strings.Repeat("0", 40) {
				t = append(t, "position-has-zero-id")
			}
		}
		if i >= 10 {
			t = append(t, "position-ge-10")
		}
		out = append(out, t)
	}
	return out
}

var forgedJournalMessage = strings.Repeat("A", 4200) + " " + strings.Repeat("1234567890", 4) + " Z\tcommit: forged"

func c03Steps(full bool) func(n *Node) []Step {
	return func(n *Node) []Step {
		a := n.Abs()
		st := stateTags(a)
		var steps []Step
		add := func(s Step, tags ...string) {
			steps = append(steps, s.WithTags(append(append([]string{}, st...), tags...)...))
		}
		ids := idPool(a)
		refs := []taggedArg{{"refs/heads/main", nil}, {"refs/heads/b", nil}, {"refs/heads/nope", []string{"ref:unknown-branch"}}, {"refs/heads/x/b", []string{"ref:nested", "ref-name-hostile"}}}
		if a.HeadRef != "main" && a.HeadRef != "" {
			refs = append(refs, taggedArg{"refs/heads/" + a.HeadRef, nil})
		}
		for _, r := range refs {
			for _, id := range ids {
				add(Run("update-ref", r.v, id.v), append(append([]string{}, r.tags...), id.tags...)...)
			}
		}
		for _, nm := range hostileNames {
			add(Run("branch", nm.v), nm.tags...)
			add(Run("switch", nm.v), nm.tags...)
			add(Run("switch", "-c", nm.v), nm.tags...)
			add(Run("branch", "-r", nm.v), nm.tags...)
			add(Run("branch", "-d", nm.v), nm.tags...)
		}
		// reset takes journal positions only: an object id (of any kind) in their place is refused
		for _, id := range ids {
			add(Run("reset", "--soft", id.v), id.tags...)
			add(Run("reset", "--hard", id.v), id.tags...)
		}
		add(Run("switch", "main"))
		add(Run("switch", "b"))
		add(Run("branch", "-d", "b"))
		add(Run("branch", "-d", "main"))
		add(Run("branch", "-d", "nope"))
		for i, pt := range journalPositions(a) {
			if i > 12 || (!full && i > 6) {
				break
			}
			for _, m := range []string{"--soft", "--mixed", "--hard"} {
				add(Run("reset", m, fmt.Sprintf("HEAD@{%d}", i)), pt...)
			}
		}
		if full || n.Depth <= 1 {
			// absolute spellings of the metadata directory and of the working tree (quick: near the seeds only)
			for _, s := range []Step{Run("add", "@ROOT@/.goit/objects"), Run("add", "@ROOT@"), Run("rm", ".goit/objects")} {
				add(s)
			}
		}
		for _, s := range []Step{Run("add", "a"), Run("add", "d"), Run("add", "nope"), Run("rm", "a"), Run("rm", "nope"),
			Run("restore", "a"), Run("restore", "--staged", "a"), Run("restore", "--staged", "d"), Run("restore", "nope"), Run("commit", "-m", "m"), Run("write-tree")} {
			add(s)
		}
		// a subject that makes the journal line longer than 4 KiB and whose tail is shaped like a journal line naming an object that does not exist
		add(Run("commit", "-m", forgedJournalMessage), "message-shaped-like-journal-line")
		if full {
			steps = append(steps, Write("a", "a v3\n"), Delete("a"), Write("d/x", "d/x v2\n"))
		} else {
			steps = append(steps, Write("a", "a v3\n"))
		}
		return steps
	}
}

// c03Invariant = fsck(post) + object monotonicity (pre -> post).
func c03Invariant(pre, post *Abs, st *Step) []Violation {
	var vs []Violation
	cmd, tags := "state", []string(nil)
	if st != nil {
		cmd, tags = st.Cmd(), st.Tags
	}
	seen := map[string]bool{}
	for _, p := range post.Fsck() {
		if seen[p.Class] {
			continue
		}
		seen[p.Class] = true
		vs = append(vs, Violation{Oracle: p.Class, Command: cmd, Tags: tags, Detail: "fsck after the command: " + p.Msg})
	}
	if pre != nil {
		for name, o := range pre.Objects {
			po, ok := post.Objects[name]
			if !ok {
				vs = append(vs, Violation{Oracle: "objects-never-deleted", Command: cmd, Tags: tags, Detail: "object " + name + " disappeared"})
				break
			}
			if o.Err == nil && (po.Err != nil || po.Kind != o.Kind || string(po.Body) != string(o.Body)) {
				vs = append(vs, Violation{Oracle: "objects-never-change", Command: cmd, Tags: tags, Detail: "object " + name + " decodes differently after the command"})
				break
			}
		}
	}
	return vs
}

func checkC03(e *RunEnv) *CheckResult {
	spec := &Spec{
		Seeds: append(allSeeds(), Seed{"dir-becomes-file", append(seedS1(), Rmdir("d"), Write("d", "now a file\n"), Run("add", "d"))}),
		Depth: e.depth(3, 4),
		Steps: c03Steps(e.Thorough()),
		CheckTrans: func(c *Ctx, pre *Node, st Step, res *Result, post *State) ([]Violation, bool) {
			vs := c03Invariant(pre.Abs(), post.Abs(), &st)
			return vs, len(vs) == 0
		},
		CheckState: func(c *Ctx, n *Node) []Violation {
			if n.Parent != nil {
				return nil // judged as a transition target already
			}
			return c03Invariant(nil, n.Abs(), nil)
		},
	}
	res := runSpec(e, spec, nil)
	// second exploration: one file cycling through three contents (stage, commit, go back to an earlier content,
	// stage something else before committing): an object that an older commit still needs must never go away
	cyc := &Spec{
		Seeds: []Seed{{"S0", seedS0()}},
		Depth: e.depth(6, 8),
		Steps: func(n *Node) []Step {
			st := stateTags(n.Abs())
			var steps []Step
			for _, x := range []string{"content A\n", "content B\n", "content C\n"} {
				steps = append(steps, Seq(Write("a", x), Run("add", "a")).WithTags(st...))
			}
			steps = append(steps, Run("commit", "-m", "m").WithTags(st...), Run("reset", "--soft", "HEAD@{1}").WithTags(st...))
			return steps
		},
		CheckTrans: spec.CheckTrans,
	}
	res2 := runSpec(e, cyc, nil)
	if replayOnly() {
		return res
	}
	res.Violations = append(res.Violations, res2.Violations...)
	for _, k := range []string{"states", "transitions", "traces_validated_against_impl", "evaluations", "distinct_nontrivial", "probes"} {
		a, _ := res.Coverage[k].(int)
		b, _ := res2.Coverage[k].(int)
		res.Coverage[k] = a + b
	}
	res.Coverage["content_cycling_states"] = res2.Coverage["states"]
	if ex, _ := res2.Coverage["exhaustive"].(bool); !ex {
		res.Coverage["exhaustive"] = false
	}
	return res
}
