package main

import (
	"fmt"
	"strings"
)

func init() { registry["C17"] = checkC17 }

func c17State(c *Ctx, n *Node) []Violation {
	a := n.Abs()
	var vs []Violation
	tags := stateTags(a)
	if a.IgnoreRules() != nil {
		tags = append(tags, "has-ignore-file")
	}
	for _, e := range a.Index {
		if e.Path == ".goit" || strings.HasPrefix(e.Path, ".goit/") {
			vs = append(vs, Violation{Oracle: "metadata-never-staged", Command: "state", Tags: tags, Detail: fmt.Sprintf("staging area contains %q", e.Path)})
			break
		}
	}
	if len(vs) > 0 || a.IndexErr != nil {
		return vs
	}
	// status hides exactly the ignored paths and Goit's own directory (C13 oracle on this alphabet)
	r, _ := c.Probe(n.State, nil, "status")
	for _, v := range c13Judge(a, r, tags, "") {
		if v.Oracle == "untracked-exact" || strings.HasPrefix(v.Oracle, "status-works") {
			v.Trace = append(c.X.fullTrace(n, nil), Run("status"))
			vs = append(vs, v)
		}
	}
	return vs
}

func c17Trans(c *Ctx, pre *Node, st Step, res *Result, post *State) ([]Violation, bool) {
	pa, qa := pre.Abs(), post.Abs()
	var vs []Violation
	switch st.Cmd() {
	case "add":
		outs := Allowed(pa, st)
		if outs == nil {
			return nil, true
		}
		if ok, why := MatchAny(outs, pa, qa, res, Components{I: true, W: true}); !ok {
			o := "add-respects-ignore"
			if res.Panicked() {
				o += "-panic"
			}
			vs = append(vs, Violation{Oracle: o, Command: "add", Tags: st.Tags, Detail: "model disagrees: " + why + outputTail(res)})
		}
		// add and status use the same notion of "excluded", whatever reading of the ignore file one takes:
		// once `add .` has succeeded, every file is either staged or excluded, so status lists nothing untracked
		if len(vs) == 0 && res.Exit == 0 && len(st.Args) == 2 && cleanArg(st.Args[1]) == "." && qa.IndexErr == nil {
			// ... and what it staged anew is what status showed as untracked before
			if rb, _ := c.Probe(pre.State, nil, "status"); rb.Exit == 0 && pa.IndexErr == nil {
				shown := map[string]bool{}
				for _, u := range ParseStatus(rb.Stdout).Untracked {
					shown[u] = true
				}
				was := pa.IndexMap()
				for _, en := range qa.Index {
					if _, tracked := was[en.Path]; !tracked && !shown[en.Path] {
						vs = append(vs, Violation{Oracle: "add-agrees-with-status", Command: "add", Tags: st.Tags,
							Detail: fmt.Sprintf("`add .` staged %q, which status (run just before) did not list as untracked: status hides what add does not skip", en.Path)})
						break
					}
				}
			}
			r, _ := c.Probe(post, nil, "status")
			if rep := ParseStatus(r.Stdout); r.Exit == 0 && len(rep.Untracked) > 0 {
				vs = append(vs, Violation{Oracle: "status-agrees-with-add", Command: "status", Tags: st.Tags, Trace: append(traceFor(c, pre, st), Run("status")),
					Detail: fmt.Sprintf("after a successful `add .` status still lists untracked paths %q: add skipped what status does not hide", rep.Untracked)})
			}
		}
	case "rm":
		// rm takes away exactly the tracked files it names; ignored files next to them are none of its business
		outs := Allowed(pa, st)
		if outs == nil {
			return nil, true
		}
		if ok, why := MatchAny(outs, pa, qa, res, Components{I: true, W: true}); !ok {
			vs = append(vs, Violation{Oracle: "rm-leaves-ignored-files", Command: "rm", Tags: st.Tags, Detail: "model disagrees: " + why + outputTail(res)})
		}
	case "reset", "restore":
		// Goit's own files change only where the command's model allows: index, the
		// current branch, logs. Nothing else inside .goit is rewritten.
		for p, d := range pre.State.Files {
			if !strings.HasPrefix(p, "root/.goit/") {
				continue
			}
			rel := p[len("root/.goit/"):]
			if rel == "index" || strings.HasPrefix(rel, "logs/") || strings.HasPrefix(rel, "refs/heads/") {
				continue
			}
			if nd, ok := post.Files[p]; !ok || string(nd) != string(d) {
				vs = append(vs, Violation{Oracle: "metadata-not-overwritten", Command: st.Cmd(), Tags: st.Tags, Detail: fmt.Sprintf(".goit/%s changed or vanished during %s", rel, st)})
				break
			}
		}
	}
	return vs, len(vs) == 0
}

func checkC17(e *RunEnv) *CheckResult {
	files := []string{"a", "sub/b", "build/o", "x.log", "sub/y.log", "my.goit/f", "goit/g", "a.logx", "build2/p", ".goit-hooks/h", "sub/.goit", "sub/build", "p.tar.gz", "nest/.goit/q", "a.b/f", "axb/f", "src/build/Makefile", "src/build/gen.c", "sub/old.log/x.txt", "old.log/y.txt", "sub/z-after", "y-after", "z-dir/f"}
	addArgs := []string{"@ROOT@", "@ROOT@/.goit/HEAD", "@ROOT@/sub", "../root", "../root/.goit/HEAD", ".", "./", "sub", "sub/..", "build", "build/o", "x.log", ".goit", ".goit/HEAD", "a", "my.goit", "goit"}
	ignores := []string{"build/\n", "*.log\n", "build/\n*.log\n", "build/\r\n*.log\r\n", "*.tar.gz\n", "build/\n\n*.log\n", "a.b/\n", "root/\n"}
	var seedFiles []Step
	seedFiles = append(seedFiles, seedS0()...)
	for _, f := range files {
		seedFiles = append(seedFiles, Write(f, v1(f)))
	}
	// ignored paths whose content equals that of a file which is not ignored
	seedFiles = append(seedFiles, Write("build/copy-of-a", v1("a")), Write("copy-of-a.log", v1("a")))
	spec := &Spec{
		Seeds: []Seed{{"S0+files", seedFiles}, {"S0+files+ignore", append(append([]Step{}, seedFiles...), Write(".goitignore", "build/\n*.log\n"))}},
		Depth: e.depth(4, 6),
		Steps: func(n *Node) []Step {
			a := n.Abs()
			st := stateTags(a)
			if a.IgnoreRules() != nil {
				st = append(st, "has-ignore-file")
			}
			var steps []Step
			for _, x := range addArgs {
				t := unionTags(pathArgTags(a, []string{x}), st)
				if x == "." || x == "./" || x == "sub/.." || x == "@ROOT@" || x == "../root" {
					t = append(t, "arg-is-parent-of-metadata")
				}
				steps = append(steps, Run("add", x).WithTags(t...))
			}
			steps = append(steps, Run("commit", "-m", "m").WithTags(st...), Run("switch", "-c", "b2").WithTags(st...),
				Run("reset", "--hard", "HEAD@{0}").WithTags(st...), Run("reset", "--hard", "HEAD@{1}").WithTags(st...),
				Run("rm", "sub/b").WithTags(st...), Run("rm", "a").WithTags(st...), Run("rm", "sub").WithTags(st...),
				Run("restore", "a").WithTags(st...), Run("restore", "sub").WithTags(st...), Run("restore", ".goit").WithTags(st...), Run("restore", ".goit/HEAD").WithTags(st...))
			cur, has := a.W[".goitignore"]
			for _, ig := range ignores {
				if !has || string(cur) != ig {
					steps = append(steps, Write(".goitignore", ig))
				}
			}
			if has {
				steps = append(steps, Delete(".goitignore"))
			}
			steps = append(steps, Write("a", v2("a")), Write("x.log", v2("x.log")))
			return steps
		},
		CheckTrans: c17Trans,
		CheckState: c17State,
	}
	var extra int
	return runSpecWith(e, spec, func(x *Explorer) {
		base := x.BuildState(seedFiles)
		if base == nil {
			return
		}
		// ignore files whose last line has no line terminator; a nested directory entry longer than 255 bytes
		deep := "gen/" + strings.Repeat("a", 90) + "/" + strings.Repeat("b", 90) + "/" + strings.Repeat("c", 90) + "/out"
		var cs []Case
		for _, ig := range []string{"build/\n*.log", "*.log\nbuild/", "*.log", "build/", deep + "/\n", "*.log\n" + deep + "/", "sub/build/\n"} {
			for _, arg := range []string{".", "gen", "x.log", "build", "sub", deep + "/f"} {
				t := []string{"has-ignore-file"}
				cs = append(cs, Case{Base: base, BaseName: "S0+files", BaseSeed: seedFiles, Probe: true,
					Steps: []Step{Write(deep+"/f", "generated\n"), Write("gen/keep", "kept\n"), Write(".goitignore", ig), Run("add", arg).WithTags(t...), Run("commit", "-m", "m").WithTags(t...), Run("reset", "--hard", "HEAD@{0}").WithTags(t...)}})
			}
		}
		extra = x.RunCases(cs)
	}, func(x *Explorer, cov map[string]interface{}) {
		cov["ignore_file_shape_cases"] = extra
		cov["states"] = x.States + extra
	})
}
