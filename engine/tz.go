package main

import (
	"encoding/binary"
	"fmt"
	"os"
	"path/filepath"
	"strconv"
	"strings"
	"sync"
)

// TZif v1 file with a single fixed offset. Passed to the unmodified binary as
// TZ=<absolute path>; the Go runtime honours it, so every UTC offset can be tested.
func tzifFixed(offsetSec int, abbr string) []byte {
	b := []byte("TZif")
	b = append(b, 0)                   // version 1
	b = append(b, make([]byte, 15)...) // reserved
	cnt := func(n uint32) {
		var x [4]byte
		binary.BigEndian.PutUint32(x[:], n)
		b = append(b, x[:]...)
	}
	cnt(0)                     // ttisgmtcnt
	cnt(0)                     // ttisstdcnt
	cnt(0)                     // leapcnt
	cnt(0)                     // timecnt
	cnt(1)                     // typecnt
	cnt(uint32(len(abbr) + 1)) // charcnt
	var x [4]byte
	binary.BigEndian.PutUint32(x[:], uint32(int32(offsetSec)))
	b = append(b, x[:]...)
	b = append(b, 0, 0) // isdst, abbrind
	b = append(b, []byte(abbr)...)
	b = append(b, 0)
	return b
}

// tzifTransition: offset `before` until instant T, `after` from T on (one transition, two types).
func tzifTransition(beforeSec, afterSec int, T int64) []byte {
	b := []byte("TZif")
	b = append(b, 0)
	b = append(b, make([]byte, 15)...)
	put := func(n uint32) {
		var x [4]byte
		binary.BigEndian.PutUint32(x[:], n)
		b = append(b, x[:]...)
	}
	abbr := "VTA\x00VTB\x00"
	put(0)                 // ttisgmtcnt
	put(0)                 // ttisstdcnt
	put(0)                 // leapcnt
	put(1)                 // timecnt
	put(2)                 // typecnt
	put(uint32(len(abbr))) // charcnt
	put(uint32(int32(T)))  // transition time
	b = append(b, 1)       // ... to type 1
	put(uint32(int32(beforeSec)))
	b = append(b, 1, 0) // type 0: isdst (summer time ends at T), abbreviation 0
	put(uint32(int32(afterSec)))
	b = append(b, 0, 4) // type 1: standard time, abbreviation 4
	b = append(b, []byte(abbr)...)
	return b
}

var tzMu sync.Mutex

// tzFileFor returns the path of a generated TZif file for the offset (minutes).
func tzFileFor(offMin int) string {
	tzMu.Lock()
	defer tzMu.Unlock()
	dir := filepath.Join(theScratch, "tz")
	os.MkdirAll(dir, 0o755)
	name := fmt.Sprintf("off%+05d", offMin)
	p := filepath.Join(dir, name)
	if _, err := os.Stat(p); err != nil {
		if err := os.WriteFile(p, tzifFixed(offMin*60, "VTZ"), 0o644); err != nil {
			harnessFatal("tz file: %v", err)
		}
	}
	return p
}

// tzTransitionFileFor: a zone whose offset is nowMin at the fixed clock instant and otherMin on the
// other side of a transition that lies delta seconds away from it (delta < 0: in the past).
func tzTransitionFileFor(nowMin, otherMin, delta int) string {
	tzMu.Lock()
	defer tzMu.Unlock()
	dir := filepath.Join(theScratch, "tz")
	os.MkdirAll(dir, 0o755)
	p := filepath.Join(dir, fmt.Sprintf("tr%+05d_%+05d_%+d", nowMin, otherMin, delta))
	if _, err := os.Stat(p); err != nil {
		fixed, _ := strconv.ParseInt(fixedNow, 10, 64)
		before, after := otherMin, nowMin
		if delta > 0 {
			before, after = nowMin, otherMin
		}
		if err := os.WriteFile(p, tzifTransition(before*60, after*60, fixed+int64(delta)), 0o644); err != nil {
			harnessFatal("tz file: %v", err)
		}
	}
	return p
}

// expandEnv translates the pseudo value TZ=VERIFTZ:<minutes> into a generated file.
func expandEnv(env []string) []string {
	out := make([]string, 0, len(env))
	for _, e := range env {
		if strings.HasPrefix(e, "TZ=VERIFTZ:") {
			spec := strings.TrimPrefix(e, "TZ=VERIFTZ:")
			if f := strings.Split(spec, "/"); len(f) == 3 {
				// <offset in force now>/<the other offset>/<seconds from now to the transition>
				now, _ := strconv.Atoi(f[0])
				other, _ := strconv.Atoi(f[1])
				delta, _ := strconv.Atoi(f[2])
				e = "TZ=" + tzTransitionFileFor(now, other, delta)
			} else {
				n, _ := strconv.Atoi(spec)
				e = "TZ=" + tzFileFor(n)
			}
		}
		out = append(out, e)
	}
	return out
}

func fmtOffset(offMin int) string {
	s := "+"
	if offMin < 0 {
		s, offMin = "-", -offMin
	}
	return fmt.Sprintf("%s%02d%02d", s, offMin/60, offMin%60)
}
