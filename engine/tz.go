package main

import (
	"encoding/binary"
	"fmt"
	"os"
	"path/filepath"
	"strconv"
	"strings"
	"sync"
)

// TZif v1 file with a single fixed offset. Passed to the unmodified binary as
// TZ=<absolute path>; the Go runtime honours it, so every UTC offset can be tested.
func tzifFixed(offsetSec int, abbr string) []byte {
	b := []byte("TZif")
	b = append(b, 0)                   // version 1
	b = append(b, make([]byte, 15)...) // reserved
	cnt := func(n uint32) {
		var x [4]byte
		binary.BigEndian.PutUint32(x[:], n)
		b = append(b, x[:]...)
	}
	cnt(0)                     // ttisgmtcnt
	cnt(0)                     // ttisstdcnt
	cnt(0)                     // leapcnt
	cnt(0)                     // timecnt
	cnt(1)                     // typecnt
	cnt(uint32(len(abbr) + 1)) // charcnt
	var x [4]byte
	binary.BigEndian.PutUint32(x[:], uint32(int32(offsetSec)))
	b = append(b, x[:]...)
	b = append(b, 0, 0) // isdst, abbrind
	b = append(b, []byte(abbr)...)
	b = append(b, 0)
	return b
}

var tzMu sync.Mutex

// tzFileFor returns the path of a generated TZif file for the offset (minutes).
func tzFileFor(offMin int) string {
	tzMu.Lock()
	defer tzMu.Unlock()
	dir := filepath.Join(theScratch, "tz")
	os.MkdirAll(dir, 0o755)
	name := fmt.Sprintf("off%+05d", offMin)
	p := filepath.Join(dir, name)
	if _, err := os.Stat(p); err != nil {
		if err := os.WriteFile(p, tzifFixed(offMin*60, "VTZ"), 0o644); err != nil {
			harnessFatal("tz file: %v", err)
		}
	}
	return p
}

// expandEnv translates the pseudo value TZ=VERIFTZ:<minutes> into a generated file.
func expandEnv(env []string) []string {
	out := make([]string, 0, len(env))
	for _, e := range env {
		if strings.HasPrefix(e, "TZ=VERIFTZ:") {
			n, _ := strconv.Atoi(strings.TrimPrefix(e, "TZ=VERIFTZ:"))
			e = "TZ=" + tzFileFor(n)
		}
		out = append(out, e)
	}
	return out
}

func fmtOffset(offMin int) string {
	s := "+"
	if offMin < 0 {
		s, offMin = "-", -offMin
	}
	return fmt.Sprintf("%s%02d%02d", s, offMin/60, offMin%60)
}
