package main

// Sandbox: concrete disk states (worktree + .goit + $HOME), materialise / capture /
// run one goit process.

import (
	"bytes"
	"context"
	"crypto/sha256"
	"encoding/hex"
	"fmt"
	"os"
	"os/exec"
	"path/filepath"
	"sort"
	"strings"
	"syscall"
	"time"
)

// State is a complete snapshot of a sandbox: Files maps a slash path to its bytes,
// Dirs is the set of directories (so that empty directories are kept). Paths are
// prefixed "root/" (worktree incl. .goit) or "home/".
type State struct {
	Files map[string][]byte
	Dirs  map[string]bool
	key   string
}

func NewState() *State { return &State{Files: map[string][]byte{}, Dirs: map[string]bool{}} }

func (s *State) Clone() *State {
	n := NewState()
	for k, v := range s.Files {
		n.Files[k] = v // bytes are never mutated in place
	}
	for k := range s.Dirs {
		n.Dirs[k] = true
	}
	return n
}

// Key is the SHA-256 of the sorted snapshot. Config files are keyed by their parsed
// content (Config.Write iterates Go maps; line order is unobservable to the loader).
func (s *State) Key() string {
	if s.key != "" {
		return s.key
	}
	h := sha256.New()
	paths := make([]string, 0, len(s.Files))
	for p := range s.Files {
		paths = append(paths, p)
	}
	sort.Strings(paths)
	for _, p := range paths {
		data := s.Files[p]
		if p == "root/.goit/config" || p == "home/.goitconfig" {
			data = []byte(canonConfig(data))
		}
		fmt.Fprintf(h, "F %q %d\n", p, len(data))
		h.Write(data)
	}
	dirs := make([]string, 0, len(s.Dirs))
	for d := range s.Dirs {
		dirs = append(dirs, d)
	}
	sort.Strings(dirs)
	for _, d := range dirs {
		fmt.Fprintf(h, "D %q\n", d)
	}
	s.key = hex.EncodeToString(h.Sum(nil))
	return s.key
}

// SameIgnoringTmp reports whether two states are equal up to files named *.tmp inside .goit
// (left behind by a failed atomic write; no loader ever looks at them).
func SameIgnoringTmp(a, b *State) bool {
	strip := func(s *State) *State {
		n := NewState()
		for p, d := range s.Files {
			if strings.HasPrefix(p, "root/.goit/") && strings.HasSuffix(p, ".tmp") {
				continue
			}
			n.Files[p] = d
		}
		for d := range s.Dirs {
			n.Dirs[d] = true
		}
		return n
	}
	if a.Key() == b.Key() {
		return true
	}
	return strip(a).Key() == strip(b).Key()
}

// canonConfig sorts sections and keys of a config file written by Goit. Anything
// that does not look like such a file is returned unchanged.
func canonConfig(data []byte) string {
	lines := strings.Split(string(data), "\n")
	type sec struct {
		name string
		kv   []string
	}
	var secs []*sec
	for i, l := range lines {
		if l == "" && i == len(lines)-1 {
			continue
		}
		if strings.HasPrefix(l, "[") {
			secs = append(secs, &sec{name: l})
		} else if len(secs) > 0 && strings.HasPrefix(l, "\t") {
			secs[len(secs)-1].kv = append(secs[len(secs)-1].kv, l)
		} else {
			return string(data)
		}
	}
	sort.SliceStable(secs, func(i, j int) bool { return secs[i].name < secs[j].name })
	var b strings.Builder
	for _, s := range secs {
		sort.Strings(s.kv)
		b.WriteString(s.name + "\n")
		for _, l := range s.kv {
			b.WriteString(l + "\n")
		}
	}
	return b.String()
}

// Worktree helpers ---------------------------------------------------------------

func (s *State) W() map[string][]byte { // worktree files outside .goit
	m := map[string][]byte{}
	for p, d := range s.Files {
		if strings.HasPrefix(p, "root/") && !strings.HasPrefix(p, "root/.goit/") {
			m[p[5:]] = d
		}
	}
	return m
}

func (s *State) Goit(rel string) ([]byte, bool) {
	d, ok := s.Files["root/.goit/"+rel]
	return d, ok
}

func (s *State) WriteFile(rel string, data []byte) {
	s.key = ""
	p := "root/" + rel
	for d := filepath.Dir(p); d != "." && d != "root"; d = filepath.Dir(d) {
		s.Dirs[d] = true
		delete(s.Files, d) // a regular file in the way of a directory is replaced
	}
	if s.Dirs[p] {
		s.RemoveDir(rel)
	}
	s.Files[p] = data
}

func (s *State) DeleteFile(rel string) {
	s.key = ""
	delete(s.Files, "root/"+rel)
}

// RemoveDir removes a directory and everything beneath it.
func (s *State) RemoveDir(rel string) {
	s.key = ""
	pre := "root/" + rel
	for p := range s.Files {
		if strings.HasPrefix(p, pre+"/") {
			delete(s.Files, p)
		}
	}
	for d := range s.Dirs {
		if d == pre || strings.HasPrefix(d, pre+"/") {
			delete(s.Dirs, d)
		}
	}
}

// PruneEmptyDirs removes worktree directories (outside .goit) that contain nothing.
func (s *State) PruneEmptyDirs() {
	s.key = ""
	for {
		used := map[string]bool{}
		for p := range s.Files {
			for d := filepath.Dir(p); d != "."; d = filepath.Dir(d) {
				used[d] = true
			}
		}
		for d := range s.Dirs {
			for q := filepath.Dir(d); q != "."; q = filepath.Dir(q) {
				used[q] = true
			}
		}
		removed := false
		for d := range s.Dirs {
			if strings.HasPrefix(d, "root/") && !strings.HasPrefix(d, "root/.goit") && !used[d] {
				delete(s.Dirs, d)
				removed = true
			}
		}
		if !removed {
			return
		}
	}
}

// Sandbox ---------------------------------------------------------------------------

type Sandbox struct {
	Dir  string // contains root/ and home/
	Env  []string
	last *State
}

func NewSandbox(dir string) *Sandbox {
	os.MkdirAll(filepath.Join(dir, "root"), 0o755)
	os.MkdirAll(filepath.Join(dir, "home"), 0o755)
	return &Sandbox{Dir: dir}
}

func (sb *Sandbox) Root() string { return filepath.Join(sb.Dir, "root") }
func (sb *Sandbox) Home() string { return filepath.Join(sb.Dir, "home") }

// Materialise makes the sandbox directory hold exactly state s. When the sandbox's
// current content is known (the state captured after the previous execution), only the
// difference is written.
func (sb *Sandbox) Materialise(s *State) error {
	if sb.last == nil {
		return sb.materialiseFull(s)
	}
	last := sb.last
	sb.last = nil // unknown until this function succeeds
	// 1. remove files that must not exist or must change type
	for p := range last.Files {
		if _, keep := s.Files[p]; !keep || s.Dirs[p] {
			if err := os.Remove(filepath.Join(sb.Dir, p)); err != nil {
				return sb.materialiseFull(s)
			}
		}
	}
	// 2. remove directories that must not exist (deepest first)
	var rm []string
	for d := range last.Dirs {
		if !s.Dirs[d] {
			rm = append(rm, d)
		}
	}
	sort.Sort(sort.Reverse(sort.StringSlice(rm)))
	for _, d := range rm {
		if err := os.RemoveAll(filepath.Join(sb.Dir, d)); err != nil {
			return sb.materialiseFull(s)
		}
	}
	// 3. create missing directories
	var mk []string
	for d := range s.Dirs {
		if !last.Dirs[d] {
			mk = append(mk, d)
		}
	}
	sort.Strings(mk)
	for _, d := range mk {
		if err := os.MkdirAll(filepath.Join(sb.Dir, d), 0o755); err != nil {
			return sb.materialiseFull(s)
		}
	}
	// 4. write new or changed files
	for p, data := range s.Files {
		if old, ok := last.Files[p]; ok && bytes.Equal(old, data) {
			continue
		}
		fp := filepath.Join(sb.Dir, p)
		if err := os.WriteFile(fp, data, 0o644); err != nil {
			if err2 := os.MkdirAll(filepath.Dir(fp), 0o755); err2 != nil {
				return sb.materialiseFull(s)
			}
			if err := os.WriteFile(fp, data, 0o644); err != nil {
				return sb.materialiseFull(s)
			}
		}
	}
	sb.last = s
	return nil
}

func (sb *Sandbox) materialiseFull(s *State) error {
	sb.last = nil
	for _, sub := range []string{"root", "home"} {
		p := filepath.Join(sb.Dir, sub)
		if err := os.RemoveAll(p); err != nil {
			return err
		}
		if err := os.MkdirAll(p, 0o755); err != nil {
			return err
		}
	}
	dirs := make([]string, 0, len(s.Dirs))
	for d := range s.Dirs {
		dirs = append(dirs, d)
	}
	sort.Strings(dirs)
	for _, d := range dirs {
		if err := os.MkdirAll(filepath.Join(sb.Dir, d), 0o755); err != nil {
			return err
		}
	}
	for p, data := range s.Files {
		fp := filepath.Join(sb.Dir, p)
		if err := os.WriteFile(fp, data, 0o644); err != nil {
			if err2 := os.MkdirAll(filepath.Dir(fp), 0o755); err2 != nil {
				return err
			}
			if err := os.WriteFile(fp, data, 0o644); err != nil {
				return err
			}
		}
	}
	sb.last = s
	return nil
}

func (sb *Sandbox) Capture() (*State, error) {
	s := NewState()
	for _, sub := range []string{"root", "home"} {
		base := filepath.Join(sb.Dir, sub)
		err := filepath.Walk(base, func(p string, fi os.FileInfo, err error) error {
			if err != nil {
				return err
			}
			if p == base {
				return nil
			}
			rel, _ := filepath.Rel(sb.Dir, p)
			rel = filepath.ToSlash(rel)
			if fi.IsDir() {
				s.Dirs[rel] = true
				return nil
			}
			if fi.Mode().IsRegular() {
				data, err := os.ReadFile(p)
				if err != nil {
					return err
				}
				s.Files[rel] = data
			} else {
				s.Files[rel] = []byte("<<non-regular " + fi.Mode().String() + ">>")
			}
			return nil
		})
		if err != nil {
			return nil, err
		}
	}
	return s, nil
}

type Result struct {
	Exit     int
	Stdout   string
	Stderr   string
	TimedOut bool
	Wall     time.Duration
}

func (r *Result) Panicked() bool {
	return r.Exit == 2 && (strings.Contains(r.Stderr, "panic:") || strings.Contains(r.Stderr, "goroutine ")) ||
		strings.Contains(r.Stderr, "panic: ") || strings.Contains(r.Stderr, "fatal error: ")
}

// PanicSite extracts the first frame inside the module from a Go panic trace:
// returns "file:line" (path as printed).
func (r *Result) PanicSite(module string) (file string, line int) {
	lines := strings.Split(r.Stderr, "\n")
	for i, l := range lines {
		if strings.HasPrefix(l, module+"/") && i+1 < len(lines) {
			loc := strings.TrimSpace(lines[i+1])
			if j := strings.LastIndex(loc, " +0x"); j >= 0 {
				loc = loc[:j]
			}
			if j := strings.LastIndex(loc, ":"); j >= 0 {
				fmt.Sscanf(loc[j+1:], "%d", &line)
				return loc[:j], line
			}
		}
	}
	return "", 0
}

var runTimeout = 30 * time.Second

const fixedNow = "1700000000"

// Run executes bin with args in root, with a closed environment.
func (sb *Sandbox) Run(bin string, extraEnv []string, args ...string) *Result {
	ctx, cancel := context.WithTimeout(context.Background(), runTimeout)
	defer cancel()
	xargs := make([]string, len(args))
	for i, a := range args {
		xargs[i] = strings.ReplaceAll(a, "@ROOT@", sb.Root())
	}
	cmd := exec.CommandContext(ctx, bin, xargs...)
	for _, e := range append(append([]string{}, sb.Env...), extraEnv...) {
		if strings.HasPrefix(e, "VERIF_NOFILE=") {
			// run under a lowered limit of open files (the limit is part of the environment a command runs in)
			cmd = exec.CommandContext(ctx, "/bin/sh", append([]string{"-c", "ulimit -n " + strings.TrimPrefix(e, "VERIF_NOFILE=") + "; exec \"$0\" \"$@\"", bin}, xargs...)...)
		}
	}
	cmd.Dir = sb.Root()
	env := []string{"HOME=" + sb.Home(), "GOMAXPROCS=1", "NO_COLOR=1", "PATH=", "TZ=UTC", "VERIF_NOW=" + fixedNow, "GOTRACEBACK=single"}
	env = append(env, sb.Env...)
	env = append(env, extraEnv...)
	cmd.Env = expandEnv(env)
	var so, se bytes.Buffer
	cmd.Stdout, cmd.Stderr = &so, &se
	cmd.SysProcAttr = &syscall.SysProcAttr{Setpgid: true}
	cmd.WaitDelay = 2 * time.Second
	t0 := time.Now()
	err := cmd.Run()
	r := &Result{Stdout: so.String(), Stderr: se.String(), Wall: time.Since(t0)}
	if ctx.Err() == context.DeadlineExceeded {
		r.TimedOut = true
		r.Exit = -1
		return r
	}
	if err != nil {
		if ee, ok := err.(*exec.ExitError); ok {
			r.Exit = ee.ExitCode()
			if r.Exit < 0 {
				r.Exit = 128 // killed by signal
			}
		} else {
			r.Exit = -2
			r.Stderr += "\nexec error: " + err.Error()
		}
	}
	return r
}

// ageWorktree gives every working-tree file the same old modification time before a command
// runs. The properties speak of bytes, never of timestamps; with the files older than anything
// Goit itself has written, a shortcut of the kind "looks older than what I stored, so it is
// unchanged" misfires in every execution instead of depending on how the sandbox happened to
// be filled (the replay scripts do the same with touch).
func (sb *Sandbox) ageWorktree(s *State) {
	old := time.Unix(worktreeMtime, 0)
	for p := range s.Files {
		if strings.HasPrefix(p, "root/") && !strings.HasPrefix(p, "root/.goit/") {
			os.Chtimes(filepath.Join(sb.Dir, p), old, old)
		}
	}
}

const worktreeMtime = 1000000000

// Exec = materialise s, run, capture.
func (sb *Sandbox) Exec(s *State, bin string, extraEnv []string, args ...string) (*Result, *State, error) {
	if err := sb.Materialise(s); err != nil {
		return nil, nil, err
	}
	sb.last = nil
	sb.ageWorktree(s)
	r := sb.Run(bin, extraEnv, args...)
	post, err := sb.Capture()
	if err != nil {
		return nil, nil, err
	}
	sb.last = post
	return r, post, nil
}
