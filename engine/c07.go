package main

import (
	"fmt"
	"sort"
	"strings"
)

func init() { registry["C07"] = checkC07 }

// stagedDiff = the exact 'Changes to be committed' set: I vs T.
func stagedDiff(I, T map[string]string) map[string]string {
	d := map[string]string{}
	for p, id := range I {
		if t, ok := T[p]; !ok {
			d[p] = "new file"
		} else if t != id {
			d[p] = "modified"
		}
	}
	for p := range T {
		if _, ok := I[p]; !ok {
			d[p] = "deleted"
		}
	}
	return d
}

func fmtKinds(m map[string]string) string {
	var ks []string
	for k, v := range m {
		ks = append(ks, fmt.Sprintf("%s:%q", v, k))
	}
	sort.Strings(ks)
	return fmt.Sprint(ks)
}

func c07State(c *Ctx, n *Node) []Violation {
	a := n.Abs()
	tip := a.Tip()
	if tip == "" || a.IndexErr != nil || indexConflict(a) || snapshotConflict(a) {
		return nil
	}
	T, err := a.Snapshot(tip)
	if err != nil {
		return nil
	}
	I := a.IndexMap()
	tags := unionTags(nameSetTags(append(indexPaths(a), keys(T)...)), stateTags(a))
	r, post := c.Probe(n.State, nil, "status")
	var vs []Violation
	if post.Key() != n.State.Key() {
		vs = append(vs, Violation{Oracle: "probe-readonly", Command: "status", Tags: tags, Detail: "status changed the repository"})
	}
	if r.Exit != 0 {
		o := "status-works"
		if r.Panicked() {
			o = "status-works-panic"
		}
		return append(vs, Violation{Oracle: o, Command: "status", Tags: tags, Detail: "status failed on a repository with a commit" + outputTail(r), Trace: append(c.X.fullTrace(n, nil), Run("status"))})
	}
	rep := ParseStatus(r.Stdout)
	want := stagedDiff(I, T)
	if fmtKinds(rep.Staged) != fmtKinds(want) || (len(want) == 0) == rep.HasStaged {
		vs = append(vs, Violation{Oracle: "staged-report-exact", Command: "status", Tags: tags,
			Detail: fmt.Sprintf("'Changes to be committed' lists %s, expected %s", fmtKinds(rep.Staged), fmtKinds(want)),
			Trace:  append(c.X.fullTrace(n, nil), Run("status"))})
	}
	return vs
}

func c07Trans(c *Ctx, pre *Node, st Step, res *Result, post *State) ([]Violation, bool) {
	if _, ok := commitMsg(st); !ok {
		return nil, true
	}
	pa, qa := pre.Abs(), post.Abs()
	outs := Allowed(pa, st)
	if outs == nil {
		return nil, true
	}
	var vs []Violation
	if outs[0].Refused {
		if res.Exit == 0 {
			vs = append(vs, Violation{Oracle: "empty-commit-refused", Command: "commit", Tags: st.Tags, Detail: "commit succeeded although the staging area equals the HEAD snapshot"})
		}
		if len(qa.Objects) != len(pa.Objects) || fmt.Sprint(qa.Branches) != fmt.Sprint(pa.Branches) {
			vs = append(vs, Violation{Oracle: "refused-commit-creates-nothing", Command: "commit", Tags: st.Tags,
				Detail: fmt.Sprintf("objects %d -> %d, branches %v -> %v", len(pa.Objects), len(qa.Objects), pa.Branches, qa.Branches)})
		}
		return vs, len(vs) == 0 && res.Exit != 0
	}
	if res.Exit == 0 {
		// immediately after a successful commit the staged-changes list is empty: the new snapshot equals the staging area
		if T, err := qa.Snapshot(qa.Tip()); err == nil && qa.IndexErr == nil && !mapsEqual(T, qa.IndexMap()) {
			return []Violation{{Oracle: "after-commit-nothing-staged", Command: "commit", Tags: st.Tags,
				Detail: "right after a successful commit the staging area differs from the new HEAD snapshot: " + diffStrMaps("snapshot vs staging area", qa.IndexMap(), T, nil)}}, false
		}
	}
	if res.Exit != 0 {
		o := "staged-difference-commits"
		if res.Panicked() {
			o = "staged-difference-commits-panic"
		}
		return []Violation{{Oracle: o, Command: "commit", Tags: st.Tags, Detail: "commit was refused although the staging area differs from the HEAD snapshot" + outputTail(res)}}, false
	}
	return nil, true
}

func checkC07(e *RunEnv) *CheckResult {
	names := []string{"test/x", "test/y", "test.c", "test-data", "test0", "t", "test/s/z", "test/s/w", "tests/w"}
	spec := &Spec{
		Seeds: []Seed{{"S0", seedS0()}, {"dir-unstaged", append(seedS0(), Write("test/x", v1("test/x")), Write("t", v1("t")), Run("add", "test", "t"), Run("commit", "-m", "c1"), Run("rm", "test/x"))}, {"twin-content", append(seedS0(), Write("test/x", "same bytes\n"), Write("test/y", "same bytes\n"), Write("t", v1("t")), Run("add", "test/x", "t"), Run("commit", "-m", "c1 holds test/x; test/y with the same bytes is on disk, untracked"))}, {"S1-one-file", append(seedS0(), Write("t", v1("t")), Run("add", "t"), Run("commit", "-m", "c1"))}, {"S1-six-names", append(seedS0(), Write("test/x", v1("test/x")), Write("test/y", v1("test/y")), Write("test.c", v1("test.c")),
			Write("test-data", v1("test-data")), Write("test0", v1("test0")), Write("t", v1("t")), Write("test/s/z", v1("test/s/z")), Write("tests/w", v1("tests/w")), Run("add", "test", "test.c", "test-data", "test0", "t", "tests"), Run("commit", "-m", "c1"))}},
		Depth: e.depth(3, 6),
		Steps: func(n *Node) []Step {
			a := n.Abs()
			t := unionTags(nameSetTags(indexPaths(a)), stateTags(a))
			var steps []Step
			for _, p := range names {
				if d, ok := a.W[p]; ok {
					if string(d) != v2(p) {
						steps = append(steps, Write(p, v2(p)))
					}
					steps = append(steps, Delete(p))
				} else {
					steps = append(steps, Write(p, v1(p)))
				}
				steps = append(steps, Run("add", p).WithTags(t...), Run("rm", p).WithTags(t...), Run("restore", "--staged", p).WithTags(t...))
			}
			// type change: the directory test/ replaced by a file test, and staged
			if _, isFile := a.W["test"]; !isFile {
				steps = append(steps, Seq(Rmdir("test"), Write("test", "now a file\n"), Run("add", "test")).WithTags(t...))
			}
			steps = append(steps, Run("add", "test").WithTags(t...), Run("add", "tests").WithTags(t...), Run("commit", "-m", "m").WithTags(t...), Run("reset", "--mixed", "HEAD@{1}").WithTags(t...))
			return steps
		},
		CheckTrans: c07Trans,
		CheckState: c07State,
	}
	var sweep int
	return runSpecWith(e, spec, func(x *Explorer) {
		base := x.BuildState(seedS0())
		if base == nil {
			return
		}
		var cs []Case
		for _, set := range subsetsUpTo(sharpNames, e.pick(3, 4)) {
			t := nameSetTags(set)
			steps := sweepBase(set)
			first, last := set[0], set[len(set)-1]
			steps = append(steps, Write(first, v2(first)), Run("add", first).WithTags(t...), Run("rm", last).WithTags(t...),
				Write("zz new", "new\n"), Run("add", "zz new").WithTags(t...), Run("commit", "-m", "second").WithTags(t...), Run("commit", "-m", "third, nothing staged").WithTags(t...))
			cs = append(cs, Case{Base: base, BaseName: "S0", BaseSeed: seedS0(), Steps: steps, Probe: true})
		}
		// blob and tree ids that contain 0x00 bytes (one and two) in the HEAD snapshot status reads
		{
			one := findContent("c", func(id string) bool { return strings.Contains(id[:38], "00") && strings.Index(id, "00")%2 == 0 })
			two := findContent("z", func(id string) bool {
				n := 0
				for i := 0; i < 40; i += 2 {
					if id[i:i+2] == "00" {
						n++
					}
				}
				return n >= 2
			})
			cs = append(cs, Case{Base: base, BaseName: "S0", BaseSeed: seedS0(), Probe: true, Steps: []Step{Write("one-zero", one), Write("two-zero", two), Write("k", "k\n"), Run("add", "one-zero", "two-zero", "k"), Run("commit", "-m", "m"),
				Write("k", "k2\n"), Run("add", "k"), Run("rm", "one-zero"), Run("commit", "-m", "m2"), Run("commit", "-m", "nothing")}})
		}
		// a directory of 900 files (tree > 32 KiB, index > 64 KiB), names at the length limit, identical directories
		cs = append(cs, Case{Base: base, BaseName: "S0", BaseSeed: seedS0(), Steps: append(hugeDirSteps(900), Run("commit", "-m", "nothing staged")), Probe: true})
		sweep = x.RunCases(cs)
	}, func(x *Explorer, cov map[string]interface{}) {
		cov["name_sweep_cases"] = sweep
		cov["states"] = x.States + sweep
	})
}
