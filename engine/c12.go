package main

import (
	"fmt"
	"regexp"
	"strconv"
	"strings"
	"time"
)

func init() {
	registry["C12"] = checkC12
	harnessList = append(harnessList, "h12")
}

func tzOf(st Step) (int, bool) {
	for _, e := range st.Env {
		if strings.HasPrefix(e, "TZ=VERIFTZ:") {
			spec := strings.TrimPrefix(e, "TZ=VERIFTZ:")
			if i := strings.IndexByte(spec, '/'); i >= 0 {
				spec = spec[:i] // a zone with a transition: the offset in force at the fixed instant comes first
			}
			n, err := strconv.Atoi(spec)
			return n, err == nil
		}
	}
	return 0, false
}

var dateOffRe = regexp.MustCompile(`[+-][0-9]{4}`)

func c12Trans(c *Ctx, pre *Node, st Step, res *Result, post *State) ([]Violation, bool) {
	msg, ok := commitMsg(st)
	if !ok {
		return nil, true
	}
	off, hasTZ := tzOf(st)
	if !hasTZ {
		return nil, true
	}
	pa, qa := pre.Abs(), post.Abs()
	name, email, _ := pa.Identity()
	var vs []Violation
	tags := st.Tags
	bad := func(oracle, cmd, f string, args ...interface{}) {
		vs = append(vs, Violation{Oracle: oracle, Command: cmd, Tags: tags, Detail: fmt.Sprintf(f, args...)})
	}
	if res.Exit != 0 {
		o := "commit-succeeds-in-zone"
		if res.Panicked() {
			o += "-panic"
		}
		bad(o, "commit", "commit failed under UTC offset %s with name %q, e-mail %q%s", fmtOffset(off), name, email, outputTail(res))
		return vs, false
	}
	tip := qa.Tip()
	cm, err := qa.Commit(tip)
	if err != nil {
		bad("stored-lines-git-form", "commit", "%v", err)
		return vs, false
	}
	want := fmt.Sprintf("%s <%s> %s %s", name, email, fixedNow, fmtOffset(off))
	if cm.Author != want || cm.Committer != want {
		bad("stored-lines-git-form", "commit", "stored author %q committer %q, expected %q", cm.Author, cm.Committer, want)
	}
	if cm.Message != msg+"\n" && cm.Message != msg {
		bad("message-stored", "commit", "stored message %q, given %q", cm.Message, msg)
	}
	if len(vs) > 0 {
		return vs, false
	}
	// read back through cat-file -p and log
	trace := traceFor(c, pre, st)
	o := qa.GoodObj(tip)
	r1, _ := c.Probe(post, st.Env, "cat-file", "-p", tip)
	if r1.Exit != 0 || r1.Stdout != string(o.Body)+"\n" {
		vs = append(vs, Violation{Oracle: "cat-file-reads-back", Command: "cat-file", Tags: tags, Trace: append(append([]Step{}, trace...), Run("cat-file", "-p", tip)),
			Detail: fmt.Sprintf("cat-file -p of the commit printed %q (exit %d), stored %q", trunc(r1.Stdout, 200), r1.Exit, trunc(string(o.Body), 200))})
	}
	r2, _ := c.Probe(post, st.Env, "log", "-n", "1")
	es := ParseLog(r2.Stdout)
	switch {
	case r2.Exit != 0 || len(es) != 1:
		o := "log-reads-back"
		if r2.Panicked() {
			o += "-panic"
		}
		vs = append(vs, Violation{Oracle: o, Command: "log", Tags: tags, Trace: append(append([]Step{}, trace...), Run("log", "-n", "1")), Detail: "log -n 1 failed or printed no entry" + outputTail(r2)})
	default:
		en := es[0]
		offs := dateOffRe.FindAllString(en.Date, -1)
		gotOff := ""
		if len(offs) > 0 {
			gotOff = offs[len(offs)-1]
		}
		// the Date line shows the stored instant (wall clock in the stored offset)
		if t, err := time.Parse("2006-01-02 15:04:05 -0700", strings.TrimSpace(en.Date)[:min(25, len(strings.TrimSpace(en.Date)))]); err == nil {
			if fmt.Sprint(t.Unix()) != fixedNow {
				vs = append(vs, Violation{Oracle: "log-shows-stored-instant", Command: "log", Tags: tags, Trace: append(append([]Step{}, trace...), Run("log", "-n", "1")),
					Detail: fmt.Sprintf("log shows date %q = instant %d; the commit stores %s", en.Date, t.Unix(), fixedNow)})
			}
		}
		wantMsg := strings.TrimSuffix(cm.Message, "\n")
		if en.ID != tip || en.Author != name+" <"+email+">" || gotOff != fmtOffset(off) || en.Message != wantMsg {
			vs = append(vs, Violation{Oracle: "log-reads-back", Command: "log", Tags: tags, Trace: append(append([]Step{}, trace...), Run("log", "-n", "1")),
				Detail: fmt.Sprintf("log shows author %q, date %q, message %q; expected author %q, offset %s, message %q", en.Author, en.Date, en.Message, name+" <"+email+">", fmtOffset(off), wantMsg)})
		}
	}
	// a reader in another time zone sees the offset stored in the commit, not their own
	reader := "TZ=VERIFTZ:525"
	if off == 525 {
		reader = "TZ=VERIFTZ:-300"
	}
	r3, _ := c.Probe(post, []string{reader}, "log", "-n", "1")
	if es3 := ParseLog(r3.Stdout); r3.Exit == 0 && len(es3) == 1 {
		offs := dateOffRe.FindAllString(es3[0].Date, -1)
		if len(offs) == 0 || offs[len(offs)-1] != fmtOffset(off) {
			vs = append(vs, Violation{Oracle: "log-shows-stored-offset", Command: "log", Tags: tags, Trace: append(append([]Step{}, trace...), Run("log", "-n", "1").WithEnv(reader)),
				Detail: fmt.Sprintf("read in another time zone (%s), log shows date %q; the commit stores offset %s", reader, es3[0].Date, fmtOffset(off))})
		}
	}
	return vs, len(vs) == 0
}

func checkC12(e *RunEnv) *CheckResult {
	spec := &Spec{Depth: 0, CheckTrans: c12Trans}
	var hsum *HarnessSummary
	var hvs []Violation
	var cli int
	runH := func() []Violation {
		vs, sum := runHarness(e, "h12", nil, func(shard int, journal, stderr string) *Violation {
			return &Violation{Oracle: "no-fatal", Command: "commit-metadata", Detail: "harness process died: " + stderr}
		})
		hsum = sum
		return vs
	}
	res := runSpecWith(e, spec, func(x *Explorer) {
		hvs = runH()
		seed := append(seedS0(), Write("f", "f v1\n"), Run("add", "f"))
		base := x.BuildState(seed)
		if base == nil {
			return
		}
		var cs []Case
		offTags := func(off int) []string {
			var t []string
			if off < 0 {
				t = append(t, "utc-offset-negative")
			}
			if off%60 != 0 {
				t = append(t, "utc-offset-fractional")
			}
			return t
		}
		for off := -12 * 60; off <= 14*60; off += 15 {
			env := fmt.Sprintf("TZ=VERIFTZ:%d", off)
			cs = append(cs, Case{Base: base, BaseName: "S0+staged", BaseSeed: seed, Steps: []Step{Run("commit", "-m", "m").WithEnv(env).WithTags(offTags(off)...)}})
		}
		// zones with a transition close to the instant of the commit (the end of summer time 10 minutes ago / in
		// 10 minutes, one hour and half an hour wide, west and east of Greenwich; and its beginning)
		for _, z := range []string{"-240/-180/-600", "-180/-240/600", "60/120/-600", "120/60/600", "570/630/-600", "630/570/600", "-180/-240/-600", "120/60/-600", "-240/-180/-3599", "60/120/3599"} {
			now, _ := strconv.Atoi(z[:strings.IndexByte(z, '/')])
			cs = append(cs, Case{Base: base, BaseName: "S0+staged", BaseSeed: seed, Steps: []Step{Run("commit", "-m", "m").WithEnv("TZ=VERIFTZ:" + z).WithTags(append(offTags(now), "zone-transition-near")...)}})
		}
		names := []string{"Doe, Jane", "build-robot[bot]", "Émile Zoë", "Łukasz Żak", "山田 太郎", "Sammy Davis Jr.", "'quoted'", "Build Bot #7", "Ann -> Bee", "1 > 2", "Bee >", "A", "Al Bo", "Al  Bo", "é ü", "O'N", "a>b", "x@y", strings.Repeat("N", 200)}
		emails := []string{"a@b.co", "a.b+c-d_e@x-y.z9.org", "A9@a1.b2.info"}
		messages := []string{"", "m", "a: b", "l1\nl2", "l1\n\nl3", "\nlead", "trail\n", "é", strings.Repeat("x", 4096), "tree deadbeef", "author x", "100% of %s %d", "50%",
			strings.Repeat(strings.Repeat("forty kilobytes in eleven lines ", 120)+"\n", 11) + "end", "subject\n\n" + strings.Repeat("y", 70000)}
		for _, off := range []int{-330, -45, 0, 345} {
			env := fmt.Sprintf("TZ=VERIFTZ:%d", off)
			for _, nm := range names {
				for _, msg := range messages {
					t := unionTags(offTags(off), messageTags(msg))
					cs = append(cs, Case{Base: base, BaseName: "S0+staged", BaseSeed: seed, Steps: []Step{Run("config", "user.name", nm), Run("commit", "-m", msg).WithEnv(env).WithTags(t...)}})
				}
			}
			for _, em := range emails {
				cs = append(cs, Case{Base: base, BaseName: "S0+staged", BaseSeed: seed, Steps: []Step{Run("config", "user.email", em), Run("commit", "-m", "m").WithEnv(env).WithTags(offTags(off)...)}})
			}
		}
		// the identity split over the two config files (name here, e-mail there)
		for _, split := range [][]Step{
			{Run("config", "user.name", "Local Name"), Run("config", "--global", "user.email", "global@x.io")},
			{Run("config", "--global", "user.name", "Global Name"), Run("config", "user.email", "local@x.io")},
			{Run("config", "--global", "user.name", "Global Name"), Run("config", "--global", "user.email", "global@x.io")},
		} {
			seed2 := append(append([]Step{Run("init")}, split...), Write("f", "f v1\n"), Run("add", "f"))
			if b2 := x.BuildState(seed2); b2 != nil {
				for _, off := range []int{-330, 345} {
					cs = append(cs, Case{Base: b2, BaseName: "split-identity", BaseSeed: seed2, Steps: []Step{Run("commit", "-m", "m").WithEnv(fmt.Sprintf("TZ=VERIFTZ:%d", off)).WithTags(append(offTags(off), "identity-split")...)}})
				}
			}
		}
		cli = x.RunCases(cs)
	}, func(x *Explorer, cov map[string]interface{}) {
		cov["states"] = hsum.Distinct + cli
		cov["transitions"] = hsum.Evaluations + int(x.Transitions)
		cov["traces_validated_against_impl"] = hsum.Evaluations + int(x.Transitions)
		cov["evaluations"] = hsum.Evaluations + int(x.Transitions) + int(x.Probes)
		cov["distinct_nontrivial"] = hsum.Distinct + cli
		cov["in_module_cases"] = hsum.Evaluations
		cov["cli_cases"] = cli
		cov["utc_offsets"] = 105
		cov["exhaustive"] = x.Exhaustive && hsum.Exhaustive
		cov["samples"] = append(hsum.Samples, x.Samples...)
		cov["rule"] = "in-module: all 105 quarter-hour offsets -12:00..+14:00 x 8 instants, and names x e-mails x messages at selected (thorough: all) offsets, through Sign.String / NewObject / NewCommit; CLI: commit under a generated TZif file for each of the 105 offsets and names x messages at four offsets, read back by the independent decoder, cat-file -p and log; distinct_nontrivial = distinct signature lines + CLI cases"
	})
	res.Violations = append(res.Violations, hvs...)
	oldRejudge := res.Rejudge
	var rerun []Violation
	var rerunDone bool
	res.Rejudge = func(v *Violation) []Violation {
		if v.Case != nil || v.Oracle == "no-fatal" {
			// the harness is deterministic: one complete second run confirms every in-module violation
			if !rerunDone {
				rerun, rerunDone = runH(), true
			}
			return rerun
		}
		return oldRejudge(v)
	}
	return res
}
