package main

import (
	"fmt"
	"path/filepath"
	"strings"
	"sync"
)

func init() { registry["C18"] = checkC18 }

type inv struct {
	args    []string
	invalid bool // invalid by its arguments alone (decided here, before the run)
	tags    []string
}

var long300 = strings.Repeat("n", 300)

// c18Invocations generates the whole command grammar for a state.
func c18Invocations(a *Abs, full bool) []inv {
	var out []inv
	add := func(invalid bool, tags []string, args ...string) {
		out = append(out, inv{append([]string{}, args...), invalid, tags})
	}
	// flag-subset helper: calls f with every subset of bool flags
	subsets := func(flags []string, f func(fl []string)) {
		for m := 0; m < 1<<len(flags); m++ {
			var fl []string
			for i, x := range flags {
				if m&(1<<i) != 0 {
					fl = append(fl, x)
				}
			}
			f(fl)
		}
	}
	// positional lists of length 0..2
	lists := func(alpha []taggedArg, maxLen int, f func(args []string, tags []string, anyInvalid bool)) {
		f(nil, nil, false)
		for _, x := range alpha {
			f([]string{x.v}, x.tags, hasTag(x.tags, "arg-invalid"))
		}
		if maxLen >= 2 {
			for _, x := range alpha {
				for _, y := range alpha {
					f([]string{x.v, y.v}, unionTags(x.tags, y.tags), hasTag(x.tags, "arg-invalid") || hasTag(y.tags, "arg-invalid"))
				}
			}
		}
	}
	st := stateTags(a)
	I := a.IndexMap()
	// path alphabet
	var paths []taggedArg
	var tracked, deleted string
	for _, e := range a.Index {
		if _, ok := a.W[e.Path]; ok && tracked == "" {
			tracked = e.Path
		} else if !ok && deleted == "" {
			deleted = e.Path
		}
	}
	if tracked != "" {
		paths = append(paths, taggedArg{tracked, []string{"arg:tracked-file"}})
		paths = append(paths, taggedArg{tracked + "/x", []string{"parent-is-regular-file", "arg-invalid"}})
	}
	if deleted != "" {
		paths = append(paths, taggedArg{deleted, []string{"arg:deleted-tracked-file"}})
	}
	for p := range a.W {
		if _, ok := I[p]; !ok && !strings.Contains(p, "/") {
			paths = append(paths, taggedArg{p, []string{"arg:untracked-file"}})
			paths = append(paths, taggedArg{p + "/x", []string{"parent-is-regular-file", "arg-invalid"}})
			break
		}
	}
	paths = append(paths, taggedArg{"d", []string{"arg:dir"}}, taggedArg{"nope", []string{"arg:unknown", "arg-invalid"}}, taggedArg{".", []string{"arg:dot"}})
	if full {
		paths = append(paths, taggedArg{long300, []string{"arg:long-name", "arg-invalid"}}, taggedArg{"a(b", []string{"name-has-regexp-meta"}}, taggedArg{"x[", []string{"name-has-regexp-meta", "arg-invalid"}},
			taggedArg{"*", []string{"name-has-regexp-meta", "arg-invalid"}}, taggedArg{`b\c`, []string{"name-has-regexp-meta", "arg-invalid"}}, taggedArg{"", []string{"arg:empty", "arg-invalid"}})
	} else {
		paths = append(paths, taggedArg{"x[", []string{"name-has-regexp-meta", "arg-invalid"}}, taggedArg{"", []string{"arg:empty", "arg-invalid"}})
	}
	paths = append(paths, taggedArg{"\xff\xfe", []string{"name-invalid-utf8", "arg-invalid"}})
	unknownFlag := []string{"--no-such-flag"}
	// add / rm / restore / hash-object
	lists(paths, 2, func(args, tags []string, bad bool) {
		t := unionTags(st, tags)
		add(bad || len(args) == 0, t, append([]string{"add"}, args...)...)
		add(bad, t, append([]string{"hash-object"}, args...)...)
		subsets([]string{"-r"}, func(fl []string) { add(bad, t, append(append([]string{"rm"}, fl...), args...)...) })
		subsets([]string{"--staged"}, func(fl []string) {
			add(bad || len(args) == 0, t, append(append([]string{"restore"}, fl...), args...)...)
		})
	})
	// ids
	ids := idPool(a)
	ids = append(ids, taggedArg{"", []string{"arg:empty", "arg-invalid"}}, taggedArg{"zz", []string{"id-malformed", "arg-invalid"}}, taggedArg{"HEAD", []string{"id-malformed", "arg-invalid"}}, taggedArg{"main", []string{"id-malformed", "arg-invalid"}})
	if tip := a.Tip(); isHex40(tip) {
		// abbreviated ids: a prefix that exists, one whose fan-out directory exists but that matches nothing
		ids = append(ids, taggedArg{tip[:7], []string{"id-malformed", "arg-invalid"}}, taggedArg{tip[:2] + "0000", []string{"id-malformed", "arg-invalid"}}, taggedArg{tip[:6] + "f", []string{"id-malformed", "arg-invalid"}})
	}
	for i := range ids {
		if hasTag(ids[i].tags, "id-malformed") || hasTag(ids[i].tags, "id:unknown") {
			ids[i].tags = append(ids[i].tags, "arg-invalid")
		}
	}
	lists(ids, 2, func(args, tags []string, bad bool) {
		t := unionTags(st, tags)
		subsets([]string{"-t", "-p"}, func(fl []string) {
			add(bad || len(args) != 1 || len(fl) == 2, t, append(append([]string{"cat-file"}, fl...), args...)...)
		})
	})
	refs := []taggedArg{{"refs/heads/main", nil}, {"refs/heads/b", nil}, {"refs/heads/nope", []string{"arg-invalid"}}, {"refs/tags/x", []string{"arg-invalid"}}, {"main", []string{"arg-invalid"}}, {"", []string{"arg-invalid"}}}
	for _, r := range refs {
		for _, id := range ids {
			add(hasTag(r.tags, "arg-invalid") || hasTag(id.tags, "arg-invalid") || hasTag(id.tags, "id-not-a-commit"), unionTags(st, r.tags, id.tags), "update-ref", r.v, id.v)
		}
		add(true, unionTags(st, r.tags), "update-ref", r.v)
	}
	add(true, st, "update-ref")
	add(true, st, "update-ref", "refs/heads/main", strings.Repeat("ab", 20), "extra")
	// reset
	pos := []taggedArg{{"HEAD@{0}", nil}, {"HEAD@{1}", nil}, {"HEAD@{9}", nil}, {"HEAD@{10}", nil}, {"HEAD@{x}", []string{"arg-invalid"}}, {"head@{0}", []string{"arg-invalid"}}, {"Head@{1}", []string{"arg-invalid"}}, {"HEAD@{-1}", []string{"arg-invalid"}}, {"HEAD@{99999999999999999999}", []string{"arg-invalid"}}, {"", []string{"arg-invalid"}}}
	jp := journalPositions(a)
	for i := range pos {
		if n, ok := wellFormedPos(pos[i].v); ok {
			if n >= len(jp)-1 {
				pos[i].tags = append(pos[i].tags, "arg-invalid", "position-out-of-range")
			} else {
				pos[i].tags = append(pos[i].tags, jp[n]...)
				if hasTag(jp[n], "position-has-zero-id") {
					pos[i].tags = append(pos[i].tags, "arg-invalid")
				}
			}
		}
	}
	lists(pos, 2, func(args, tags []string, bad bool) {
		subsets([]string{"--soft", "--mixed", "--hard"}, func(fl []string) {
			soft, hard := false, false
			for _, f := range fl {
				soft = soft || f == "--soft"
				hard = hard || f == "--hard"
			}
			add(bad || len(args) != 1 || (soft && hard), unionTags(st, tags), append(append([]string{"reset"}, fl...), args...)...)
		})
	})
	// branch / switch / rev-parse
	names := []taggedArg{{"main", nil}, {"b", nil}, {"B", nil}, {"nope", nil}, {"a/b", []string{"ref-name-hostile"}}, {"..", []string{"ref-name-hostile"}}, {"a(b", []string{"name-has-regexp-meta"}}, {"", []string{"arg:empty"}}, {long300, []string{"arg:long-name"}}}
	for _, n := range names {
		t := unionTags(st, n.tags)
		add(false, t, "branch", n.v)
		add(false, t, "branch", "-d", n.v)
		add(false, t, "branch", "-r", n.v)
		add(true, t, "branch", "-d", n.v, "-r", n.v)
		add(true, t, "branch", "--list", n.v)
		add(true, t, "branch", n.v, "extra")
		add(true, t, "branch", n.v, "-d", "ghost")
		add(true, t, "branch", n.v, "-r", "ghost")
		add(true, t, "branch", "fresh", "-d", n.v)
		add(true, t, "branch", n.v, "--list")
		add(false, t, "branch", "-d", "b", "-d", n.v)
		add(false, t, "branch", "-d", n.v, "-d", "b")
		add(false, t, "switch", n.v)
		add(false, t, "switch", "-c", n.v)
		add(true, t, "switch", "-c", n.v, "extra")
		add(true, t, "switch", n.v, "extra")
		add(false, t, "rev-parse", n.v)
		add(false, t, "rev-parse", "HEAD", n.v)
	}
	add(false, st, "branch", "--list")
	add(false, st, "branch", "-l")
	add(true, st, "branch")
	add(true, st, "branch", "-d")
	add(true, st, "branch", "-r")
	add(true, st, "switch")
	add(true, st, "switch", "-c")
	add(false, st, "rev-parse")
	add(false, st, "rev-parse", "head")
	// commit
	for _, m := range [][]string{{"-m", "m"}, {"-m", ""}, {"--message", "x\ny"}, {}, {"-m"}, {"extra"}, {"-m", "m", "extra"}} {
		add(len(m) == 1 && m[0] == "-m", st, append([]string{"commit"}, m...)...)
	}
	// log
	for _, n := range []string{"0", "1", "-1", "100", "x", ""} {
		add(n == "x" || n == "", st, "log", "-n", n)
	}
	add(false, st, "log")
	add(true, st, "log", "-n")
	add(false, st, "log", "extra")
	// config
	for _, k := range []string{"user.name", "core.x", "a.b.c", ".k", "k.", "x", ""} {
		bad := k != "user.name" && k != "core.x"
		add(true, st, "config", k)
		add(bad, st, "config", k, "v")
		add(bad, st, "config", "--global", k, "v")
		add(true, st, "config", k, "v", "w")
	}
	add(true, st, "config")
	// no-argument commands with surplus arguments and unknown flags
	for _, c := range []string{"status", "reflog", "ls-files", "write-tree", "init", "help", "completion", "version"} {
		add(false, st, c)
		add(false, st, c, "extra")
	}
	add(false, st, "ls-files", "-s")
	add(false, st, "ls-files", "--staged")
	add(false, st, "completion", "bash")
	add(false, st, "help", "add")
	add(false, st, "help", "nope")
	for _, c := range []string{"init", "add", "rm", "commit", "branch", "switch", "update-ref", "reset", "restore", "status", "log", "reflog", "ls-files", "rev-parse", "cat-file", "hash-object", "config", "write-tree"} {
		add(true, st, append([]string{c}, unknownFlag...)...)
		add(false, st, c, "--help")
		add(false, st, c, "-h")
	}
	add(false, st)
	add(false, st, "-v")
	add(false, st, "--version")
	add(false, st, "-t")
	add(false, st, "-v", "-t")
	add(true, st, "--nope")
	add(true, st, "nosuchcommand")
	return out
}

func c18Judge(c *Ctx, pre *State, iv inv, res *Result, post *State, module string) []Violation {
	var vs []Violation
	cmd := "goit"
	if len(iv.args) > 0 {
		cmd = iv.args[0]
	}
	if res.TimedOut {
		return []Violation{{Oracle: "terminates", Command: cmd, Tags: iv.tags, Detail: "the process did not end within the limit"}}
	}
	if res.Panicked() || (res.Exit != 0 && res.Exit != 1) {
		site := ""
		if f, l := res.PanicSite(module); f != "" {
			site = SourceLine(f, l)
			if site == "" {
				site = filepath.Base(f)
			}
		}
		vs = append(vs, Violation{Oracle: "no-crash", Command: cmd, Tags: iv.tags, Site: site, Detail: fmt.Sprintf("exit %d%s", res.Exit, outputTail(res))})
	}
	// commands that validate their arguments before acting: whenever they refuse (non-zero exit), the
	// refusal is for their arguments (the sandbox produces no I/O failures), so nothing may have changed
	validating := map[string]bool{"add": true, "rm": true, "restore": true, "config": true, "branch": true, "switch": true, "update-ref": true, "commit": true}
	if len(iv.args) > 1 && argsOverlap(nonFlags(iv.args[1:])) {
		validating[cmd] = false // the same path twice: the statements leave the exit status open (see C04)
	}
	if (iv.invalid || validating[cmd]) && res.Exit != 0 && !SameIgnoringTmp(pre, post) {
		vs = append(vs, Violation{Oracle: "refused-unchanged", Command: cmd, Tags: iv.tags, Detail: "a command refused for invalid arguments changed the repository" + outputTail(res)})
	}
	return vs
}

var c18After sync.Map

func checkC18(e *RunEnv) *CheckResult {
	odd := append(seedS0(), Write("a(b", "x\n"), Write("x y", "x\n"), Write("d/x", "x\n"), Write("a+b", "x\n"), Write("é", "x\n"), Run("add", "a(b", "x y", "d", "a+b", "é"), Run("commit", "-m", "odd names"), Delete("a+b"))
	seeds := append(allSeeds(), Seed{"odd-names", odd}, Seed{"dir-replaced-by-file", append(seedS1(), Rmdir("d"), Write("d", "now a file\n"))}, Seed{"file-replaced-by-dir", append(seedS1(), Write("a/u", "untracked inside a former file\n"))}, Seed{"mixed-case-branches", append(seedS1(), Run("branch", "C"), Run("branch", "d"), Run("branch", "Ab"))}, Seed{"last-entry-deleted", append(seedS1(), Delete("d/x"), Write("zz", "untracked, sorts last\n"))}, Seed{"ignore-lines-that-are-no-patterns", append(seedS1(), Write(".goitignore", "a(\n[\n*tmp/\n+x\n**/build/\nc++/\n"), Write("n", "new\n"), Write("tmp/f", "f\n"), Write("build/o", "o\n"))}, Seed{"no-repo", []Step{Write("a", "x\n")}}, Seed{"init-only", []Step{Run("init")}})
	spec := &Spec{Seeds: seeds, Depth: 0}
	var ncase, nbases int
	var module string
	res := runSpecWith(e, spec, func(x *Explorer) {
		module = e.B.Module
		spec.CheckTrans = func(c *Ctx, pre *Node, st Step, r *Result, post *State) ([]Violation, bool) {
			vs := c18Judge(c, pre.State, inv{st.Args, st.Invalid, st.Tags}, r, post, module)
			// the state a successful command produced is a state Goit can produce: the everyday commands must not crash on it
			if _, dup := c18After.LoadOrStore(post.Key(), true); !dup && r.Exit == 0 && post.Key() != pre.State.Key() {
				for _, f := range append(append([][]string{}, roCmds...), []string{"commit", "-m", "x"}, []string{"switch", "main"}, []string{"reset", "--soft", "HEAD@{0}"}) {
					fr, _ := c.Probe(post, nil, f...)
					if fr.Panicked() || fr.TimedOut || (fr.Exit != 0 && fr.Exit != 1) {
						vs = append(vs, Violation{Oracle: "no-crash-afterwards", Command: f[0], Tags: st.Tags, Trace: append(traceFor(c, pre, st), Run(f...)),
							Detail: fmt.Sprintf("after `%s` (exit 0), `goit %s` ends with exit %d%s", st, strings.Join(f, " "), fr.Exit, outputTail(fr))})
						break
					}
				}
			}
			return vs, true
		}
		var cs []Case
		var bases []struct {
			name  string
			seed  []Step
			state *State
		}
		for _, sd := range seeds {
			if s := x.BuildState(sd.Steps); s != nil {
				bases = append(bases, struct {
					name  string
					seed  []Step
					state *State
				}{sd.Name, sd.Steps, s})
			}
		}
		{
			// plus every distinct state of a bounded BFS over the C03 alphabet (hostile arguments included)
			sub := &Spec{Seeds: []Seed{{"S2", seedS2()}, {"S5", seedS5()}}, Depth: 1, Steps: c03Steps(false), KeepStates: true}
			if e.Thorough() {
				sub = &Spec{Seeds: allSeeds(), Depth: 2, Steps: c03Steps(false), KeepStates: true}
			}
			sx := NewExplorer(sub, x.Bin, filepath.Join(x.Scratch, "corpus"), x.Workers, x.Deadline)
			sx.Run()
			for i, n := range sx.AllNodes {
				if n.Parent == nil {
					continue
				}
				bases = append(bases, struct {
					name  string
					seed  []Step
					state *State
				}{fmt.Sprintf("bfs%d", i), sx.fullTrace(n, nil), n.State})
			}
		}
		for bi, b := range bases {
			for _, iv := range c18Invocations(b.state.Abs(), bi < len(seeds)) {
				st := Step{Op: "run", Args: iv.args, Tags: iv.tags, Invalid: iv.invalid}
				cs = append(cs, Case{Base: b.state, BaseName: b.name, BaseSeed: b.seed, Steps: []Step{st}})
			}
		}
		nbases = len(bases)
		ncase = x.RunCases(cs)
	}, func(x *Explorer, cov map[string]interface{}) {
		cov["states"] = nbases
		cov["invocations"] = ncase
		cov["distinct_nontrivial"] = ncase
		cov["rule"] = "the whole command grammar (18 sub-commands + help/completion/bare goit; every flag subset, unknown flag, missing flag value; argument lists of length 0..2 over per-command alphabets) is executed on every state of the corpus; a case is one (state, command line); distinct_nontrivial = distinct cases executed"
	})
	return res
}

func nonFlags(args []string) []string {
	var out []string
	for _, a := range args {
		if !strings.HasPrefix(a, "-") {
			out = append(out, a)
		}
	}
	return out
}
