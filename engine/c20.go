package main

import (
	"fmt"
	"strings"
)

func init() { registry["C20"] = checkC20 }

func configArgs(st Step) (global bool, sec, key, val string, ok bool) {
	if st.Cmd() != "config" {
		return
	}
	var pos []string
	for _, x := range st.Args[1:] {
		if x == "--global" || x == "--global=true" {
			global = true
		} else if x == "--global=false" {
			global = false
		} else {
			pos = append(pos, x)
		}
	}
	if len(pos) != 2 {
		return
	}
	parts := strings.Split(pos[0], ".")
	if len(parts) != 2 {
		return
	}
	return global, parts[0], parts[1], pos[1], true
}

func cfgCopy(m map[string]map[string]string) map[string]map[string]string {
	n := map[string]map[string]string{}
	for s, kv := range m {
		n[s] = map[string]string{}
		for k, v := range kv {
			n[s][k] = v
		}
	}
	return n
}

func cfgString(m map[string]map[string]string) string {
	var parts []string
	for s, kv := range m {
		for k, v := range kv {
			parts = append(parts, fmt.Sprintf("%s.%s=%q", s, k, v))
		}
		if len(kv) == 0 {
			parts = append(parts, s+".(empty)")
		}
	}
	sortStrings(parts)
	return strings.Join(parts, " ")
}

func c20Trans(c *Ctx, pre *Node, st Step, res *Result, post *State) ([]Violation, bool) {
	if st.Cmd() != "config" {
		return nil, true
	}
	pa, qa := pre.Abs(), post.Abs()
	var vs []Violation
	bad := func(oracle, f string, args ...interface{}) {
		if res.Panicked() {
			oracle += "-panic"
		}
		vs = append(vs, Violation{Oracle: oracle, Command: "config", Tags: st.Tags, Detail: fmt.Sprintf(f, args...) + outputTail(res)})
	}
	global, sec, key, val, ok := configArgs(st)
	if !ok || st.Invalid {
		// refused forms: wrong argument count, not exactly one dot, empty section or key
		if res.Exit == 0 && (!ok) {
			bad("invalid-config-refused", "config %q was accepted", st.Args[1:])
		}
		if res.Exit != 0 && post.Key() != pre.State.Key() {
			bad("refused-unchanged", "the refused config command changed the repository")
		}
		if res.Exit == 0 && ok {
			// empty section/key accepted: every other key must still be effective and the repository must still load
			r, _ := c.Probe(post, nil, "ls-files")
			if r.Exit != 0 {
				bad("config-keeps-repository-loadable", "after config %q every command fails%s", st.Args[1:], outputTail(r))
			}
		}
		return vs, len(vs) == 0
	}
	if res.Exit != 0 {
		bad("config-set-succeeds", "config %q failed", st.Args[1:])
		return vs, false
	}
	wantL, wantG := cfgCopy(pa.Cl), cfgCopy(pa.Cg)
	tgt := wantL
	if global {
		tgt = wantG
	}
	if tgt[sec] == nil {
		tgt[sec] = map[string]string{}
	}
	tgt[sec][key] = val
	if cfgString(qa.Cl) != cfgString(wantL) {
		bad("config-write-exact", "local config holds {%s}, expected {%s}", cfgString(qa.Cl), cfgString(wantL))
	}
	if cfgString(qa.Cg) != cfgString(wantG) {
		bad("config-write-exact", "global config holds {%s}, expected {%s}", cfgString(qa.Cg), cfgString(wantG))
	}
	// nothing else in the repository changes
	for p, d := range pre.State.Files {
		if p == "root/.goit/config" || p == "home/.goitconfig" {
			continue
		}
		if nd, ok := post.Files[p]; !ok || string(nd) != string(d) {
			bad("config-touches-only-config", "%s changed", p)
			break
		}
	}
	return vs, len(vs) == 0
}

// c20State: the next commit uses exactly the effective identity; without a complete
// identity commit is refused without side effects.
func c20State(c *Ctx, n *Node) []Violation {
	a := n.Abs()
	if !a.HasHead {
		return nil
	}
	name, email, complete := a.Identity()
	tags := []string{}
	for _, kv := range [][2]string{{"name", name}, {"email", email}} {
		if strings.Contains(kv[1], "=") {
			tags = append(tags, "value-has-equals")
		}
	}
	_, ln := a.Cl["user"]["name"]
	_, gn := a.Cg["user"]["name"]
	_, le := a.Cl["user"]["email"]
	_, ge := a.Cg["user"]["email"]
	tags = append(tags, fmt.Sprintf("identity:%v%v%v%v", b2i(ln), b2i(gn), b2i(le), b2i(ge)))
	staged := ApplyEnv(n.State, Write("probe-file", "probe\n"))
	r1, s1 := c.Probe(staged, nil, "add", "probe-file")
	if r1.Exit != 0 {
		return nil
	}
	r, post := c.Probe(s1, nil, "commit", "-m", "probe")
	trace := append(c.X.fullTrace(n, nil), Write("probe-file", "probe\n"), Run("add", "probe-file"), Run("commit", "-m", "probe"))
	var vs []Violation
	bad := func(oracle, f string, args ...interface{}) {
		if r.Panicked() {
			oracle += "-panic"
		}
		vs = append(vs, Violation{Oracle: oracle, Command: "commit", Tags: tags, Detail: fmt.Sprintf(f, args...) + outputTail(r), Trace: trace})
	}
	if !complete {
		if r.Exit == 0 {
			bad("commit-needs-identity", "commit succeeded without a complete identity (name %q, email %q)", name, email)
		} else if post.Key() != s1.Key() {
			bad("refused-commit-no-side-effects", "the refused commit changed the repository")
		}
		return vs
	}
	if r.Exit != 0 {
		bad("commit-with-identity-succeeds", "name %q and e-mail %q are configured but commit failed", name, email)
		return vs
	}
	qa := post.Abs()
	cm, err := qa.Commit(qa.Tip())
	if err != nil {
		return nil
	}
	want := name + " <" + email + "> "
	if !strings.HasPrefix(cm.Author, want) || !strings.HasPrefix(cm.Committer, want) {
		bad("identity-used-unchanged", "author line %q, expected it to start with %q (local %v, global %v)", cm.Author, want, a.Cl["user"], a.Cg["user"])
	}
	return vs
}

func b2i(b bool) int {
	if b {
		return 1
	}
	return 0
}

func sortStrings(s []string) {
	for i := 1; i < len(s); i++ {
		for j := i; j > 0 && s[j] < s[j-1]; j-- {
			s[j], s[j-1] = s[j-1], s[j]
		}
	}
}

func checkC20(e *RunEnv) *CheckResult {
	values := []string{strings.Repeat("long value ", 6400) + "end", "v", "a b", "a=b", "=x", "x=", "[x]", "]", "#c", `"q"`, "é", `a\b`, "%s", "a = b", "x: y", "Build Bot #7", "a ;b", "#", "; x", "Émile Zoë", "Łukasz Żak", "山田 太郎", "ß", "Sammy Davis Jr.", "'quoted'", ":x:"}
	emails := []string{"a@b.co", "a.b+c-d_e@x-y.z9.org"}
	bfsSteps := []Step{}
	for _, g := range []bool{false, true} {
		mk := func(k, v string) Step {
			if g {
				return Run("config", "--global", k, v)
			}
			return Run("config", k, v)
		}
		sfx := "L"
		if g {
			sfx = "G"
		}
		bfsSteps = append(bfsSteps, mk("user.name", "N"+sfx), mk("user.name", "a=b "+sfx), mk("user.email", sfx+"@b.co"), mk("user.x", "v"), mk("core.x", "w=1"), mk("core.name", "C"+sfx), mk("author.name", "A"+sfx))
	}
	invalid := []Step{Run("config", "--global=false", "user.name", "NF"), Run("config", "--global=true", "user.email", "T@b.co"), Run("config", "a.b.c", "v"), Run("config", "nodot", "v"), Run("config", "user.name"), Run("config", "user.name", "a", "b"),
		{Op: "run", Args: []string{"config", ".k", "v"}, Invalid: true}, {Op: "run", Args: []string{"config", "s.", "v"}, Invalid: true}}
	spec := &Spec{
		Seeds: []Seed{{"init", []Step{Run("init")}}},
		Depth: e.depth(4, 6),
		Steps: func(n *Node) []Step {
			var steps []Step
			steps = append(steps, bfsSteps...)
			if n.Depth <= 1 {
				steps = append(steps, invalid...)
			}
			return steps
		},
		CheckTrans: c20Trans,
		CheckState: c20State,
	}
	var sweep int
	return runSpecWith(e, spec, func(x *Explorer) {
		base := x.BuildState([]Step{Run("init")})
		if base == nil {
			return
		}
		var cs []Case
		seed := []Step{Run("init")}
		// value sweep: every value as local/global user.name (with a valid e-mail next to it) and as another key
		for _, v := range values {
			for _, g := range []bool{false, true} {
				mk := func(k, val string) Step {
					t := []string{}
					if strings.Contains(val, "=") {
						t = append(t, "value-has-equals")
					}
					if g {
						return Run("config", "--global", k, val).WithTags(t...)
					}
					return Run("config", k, val).WithTags(t...)
				}
				for _, em := range emails {
					cs = append(cs, Case{Base: base, BaseName: "init", BaseSeed: seed, Steps: []Step{mk("user.email", em), mk("user.name", v), mk("core.x", v), mk("user.name", v+"2"), mk("core.y", "z")}})
				}
			}
		}
		// all 16 combinations of (local?, global?) x (name, email)
		for m := 0; m < 16; m++ {
			var steps []Step
			if m&1 != 0 {
				steps = append(steps, Run("config", "user.name", "LocalName"))
			}
			if m&2 != 0 {
				steps = append(steps, Run("config", "--global", "user.name", "GlobalName"))
			}
			if m&4 != 0 {
				steps = append(steps, Run("config", "user.email", "local@x.io"))
			}
			if m&8 != 0 {
				steps = append(steps, Run("config", "--global", "user.email", "global@x.io"))
			}
			if len(steps) > 0 {
				cs = append(cs, Case{Base: base, BaseName: "init", BaseSeed: seed, Steps: steps})
			}
		}
		// the case runner judges transitions only; the final state of every case is probed here
		x.Spec.CheckTrans = func(c *Ctx, pre *Node, st Step, res *Result, post *State) ([]Violation, bool) {
			vs, ok := c20Trans(c, pre, st, res, post)
			if len(vs) == 0 {
				nn := &Node{State: post, Parent: pre, Via: st, Seed: pre.Seed}
				for _, v := range c20State(c, nn) {
					v.Trace = append(append(append([]Step{}, seed...), nn.Trace()...), v.Trace[len(v.Trace)-3:]...)
					vs = append(vs, v)
				}
			}
			return vs, ok && len(vs) == 0
		}
		sweep = x.RunCases(cs)
		x.Spec.CheckTrans = c20Trans
	}, func(x *Explorer, cov map[string]interface{}) {
		cov["value_sweep_cases"] = sweep
		cov["values"] = values
	})
}
