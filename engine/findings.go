package main

// Known findings, violation confirmation, replay artefacts, final verdict.

import (
	"crypto/sha256"
	"encoding/hex"
	"encoding/json"
	"fmt"
	"os"
	"path/filepath"
	"sort"
	"strings"
)

type Signature struct {
	Oracle  string   `json:"oracle"`
	Command string   `json:"command"` // "a|b|c" alternatives; "" = any
	Tags    []string `json:"tags"`    // all required
	Site    string   `json:"site,omitempty"`
}

type Finding struct {
	Status      string    `json:"status"` // known | fixed
	Property    string    `json:"property"`
	Title       string    `json:"title"`
	Signature   Signature `json:"signature"`
	Commit      string    `json:"commit,omitempty"`
	Example     string    `json:"example,omitempty"`
	WhyNotFixed string    `json:"why_not_fixed,omitempty"`
}

type FindingsFile struct {
	Version int       `json:"version"`
	Entries []Finding `json:"entries"`
}

func verifDir() string {
	if d := os.Getenv("VERIF_DIR"); d != "" {
		return d
	}
	return "/verif"
}

func loadFindings() []Finding {
	data, err := os.ReadFile(filepath.Join(verifDir(), "known_findings.json"))
	if err != nil {
		return nil
	}
	var ff FindingsFile
	if err := json.Unmarshal(data, &ff); err != nil {
		harnessFatal("known_findings.json: %v", err)
	}
	return ff.Entries
}

func hasTag(tags []string, t string) bool {
	for _, x := range tags {
		if x == t {
			return true
		}
	}
	return false
}

func (f *Finding) explains(v *Violation) bool {
	if f.Status != "known" || f.Property != v.Property || f.Signature.Oracle != v.Oracle {
		return false
	}
	if f.Signature.Command != "" {
		ok := false
		for _, c := range strings.Split(f.Signature.Command, "|") {
			if c == v.Command {
				ok = true
			}
		}
		if !ok {
			return false
		}
	}
	for _, t := range f.Signature.Tags {
		if !hasTag(v.Tags, t) {
			return false
		}
	}
	if f.Signature.Site != "" && f.Signature.Site != v.Site {
		return false
	}
	return true
}

func (v *Violation) sigKey() string {
	t := append([]string{}, v.Tags...)
	sort.Strings(t)
	return v.Property + "|" + v.Oracle + "|" + v.Command + "|" + strings.Join(t, ",") + "|" + v.Site
}

type Verdict struct {
	Unexplained []Violation
	KnownSeen   map[string]int // title -> instances
	Groups      map[string]int
}

// Judge classifies violations against the known-findings file, confirms unexplained
// ones by replay, writes artefacts and prints the verdict lines. It returns the
// process exit code.
func Judge(prop string, vs []Violation, confirm func(v *Violation) (bool, string)) (int, *Verdict) {
	fs := loadFindings()
	vd := &Verdict{KnownSeen: map[string]int{}, Groups: map[string]int{}}
	// shortest traces first, so that the reported instance of each group is a smallest one
	sort.SliceStable(vs, func(i, j int) bool { return len(vs[i].Trace) < len(vs[j].Trace) })
	repr := map[string]*Violation{}
	var order []string
	for i := range vs {
		v := &vs[i]
		v.Property = prop
		sort.Strings(v.Tags)
		explained := false
		for fi := range fs {
			if fs[fi].explains(v) {
				vd.KnownSeen[fs[fi].Title]++
				explained = true
				break
			}
		}
		if explained {
			continue
		}
		k := v.sigKey()
		vd.Groups[k]++
		if repr[k] == nil {
			repr[k] = v
			order = append(order, k)
		}
	}
	for _, f := range fs {
		if f.Status == "known" && f.Property == prop {
			n := vd.KnownSeen[f.Title]
			fmt.Printf("KNOWN-FINDING: property=%s %s (instances this run: %d)\n", prop, f.Title, n)
		}
	}
	exit := 0
	for _, k := range order {
		v := repr[k]
		if confirm != nil {
			ok, why := confirm(v)
			if !ok {
				fmt.Printf("HARNESS-ERROR: property=%s violation did not reproduce on replay (%s): %s\n", prop, why, v.Detail)
				if exit == 0 {
					exit = 2
				}
				continue
			}
		}
		v.Count = vd.Groups[k]
		path := writeReplay(v)
		fmt.Printf("VIOLATION property=%s replay=%s\n", prop, path)
		fmt.Printf("  oracle=%s command=%s tags=%v site=%q instances=%d\n  %s\n", v.Oracle, v.Command, v.Tags, v.Site, v.Count, v.Detail)
		if len(v.Trace) > 0 {
			fmt.Printf("  trace: %s\n", traceString(v.Trace))
		}
		vd.Unexplained = append(vd.Unexplained, *v)
		exit = 1
	}
	return exit, vd
}

func writeReplay(v *Violation) string {
	dir := filepath.Join(verifDir(), "replays", v.Property)
	os.MkdirAll(dir, 0o755)
	js, _ := json.MarshalIndent(v, "", " ")
	h := sha256.Sum256(js)
	name := hex.EncodeToString(h[:8])
	p := filepath.Join(dir, name+".json")
	os.WriteFile(p, js, 0o644)
	if len(v.Trace) > 0 {
		os.WriteFile(filepath.Join(dir, name+".sh"), []byte(replayScript(v)), 0o755)
	}
	return p
}

// replayScript renders the trace as a plain shell script that needs only a goit binary.
func replayScript(v *Violation) string {
	var b strings.Builder
	b.WriteString("#!/bin/sh\n# Replays a violation of " + v.Property + " (" + v.Oracle + ") without the explorer.\n")
	b.WriteString("# usage: GOIT=/path/to/goit sh " + "this-file" + "\n# " + strings.ReplaceAll(v.Detail, "\n", "\n# ") + "\n")
	b.WriteString("mkd() { d=$1; while [ \"$d\" != . ] && [ \"$d\" != / ]; do [ -f \"$d\" ] && rm -f \"$d\"; d=$(dirname \"$d\"); done; mkdir -p \"$1\"; }\n")
	b.WriteString("GOIT=${GOIT:-goit}\ntmp=$(mktemp -d) && mkdir -p $tmp/root $tmp/home && cd $tmp/root || exit 2\n")
	b.WriteString("export HOME=$tmp/home TZ=UTC NO_COLOR=1 VERIF_NOW=" + fixedNow + "\n")
	for _, e := range v.Env {
		b.WriteString("export " + shQuoteEnv(e) + "\n")
	}
	for i, st := range v.Trace {
		last := i == len(v.Trace)-1
		switch st.Op {
		case "run":
			q := make([]string, len(st.Args))
			for i, a := range st.Args {
				q[i] = strings.ReplaceAll(shQuote(a), "@ROOT@", "$tmp/root")
			}
			env := ""
			for _, e := range st.Env {
				if strings.HasPrefix(e, "VERIF_NOFILE=") {
					b.WriteString("ulimit -n " + strings.TrimPrefix(e, "VERIF_NOFILE=") + " # for the next command (run the script in a sub-shell)\n")
					continue
				}
				env += shQuoteEnv(e) + " "
			}
			if last && v.Inject != "" {
				env += v.Inject + " "
			}
			b.WriteString("find . -path ./.goit -prune -o -type f -exec touch -d @" + itoa(worktreeMtime) + " {} +\n")
			b.WriteString(env + "$GOIT " + strings.Join(q, " "))
			if last {
				b.WriteString("; echo \"exit=$?\"\n")
			} else {
				b.WriteString(" >/dev/null 2>&1\n")
			}
		case "write":
			if d := filepath.Dir(st.Path); d != "." {
				b.WriteString("mkd " + shQuote(d) + "\n")
			}
			b.WriteString("[ -d " + shQuote(st.Path) + " ] && rm -rf " + shQuote(st.Path) + "\n")
			b.WriteString("printf '%s' " + shQuote(string(st.Data)) + " > " + shQuote(st.Path) + "\n")
		case "delete":
			b.WriteString("rm -f " + shQuote(st.Path) + "\n")
		case "rmdir":
			b.WriteString("rm -rf " + shQuote(st.Path) + "\n")
		case "mkdir":
			b.WriteString("mkd " + shQuote(st.Path) + "\n")
		case "homewrite":
			b.WriteString("printf '%s' " + shQuote(string(st.Data)) + " > \"$HOME\"/" + shQuote(st.Path) + "\n")
		case "homedelete":
			b.WriteString("rm -f \"$HOME\"/" + shQuote(st.Path) + "\n")
		}
	}
	b.WriteString("echo \"state left in $tmp\"\n")
	return b.String()
}

func shQuoteEnv(e string) string {
	k, v, _ := strings.Cut(e, "=")
	return k + "=" + shQuote(v)
}
