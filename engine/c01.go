package main

import (
	"fmt"
	"strings"
)

func init() {
	registry["C01"] = checkC01
	harnessList = append(harnessList, "h01")
}

func c01Trans(c *Ctx, pre *Node, st Step, res *Result, post *State) ([]Violation, bool) {
	pa := pre.Abs()
	data, ok := pa.W["f"]
	if !ok {
		return nil, true
	}
	id := BlobID(data)
	var vs []Violation
	tags := append([]string{}, st.Tags...)
	bad := func(oracle, f string, args ...interface{}) {
		if res.Panicked() {
			oracle += "-panic"
		}
		vs = append(vs, Violation{Oracle: oracle, Command: st.Cmd(), Tags: tags, Detail: fmt.Sprintf(f, args...) + outputTail(res)})
	}
	switch {
	case st.Cmd() == "cat-file" && hasTag(st.Tags, "tree-listing") && len(st.Args) == 3:
		// a tree object: kind "tree"; the printed listing names every entry (id and name), one per line, in order
		o := pa.GoodObj(st.Args[2])
		if o == nil {
			break
		}
		es, err := ParseTree(o.Body)
		if err != nil {
			break
		}
		if st.Args[1] == "-t" {
			if res.Exit != 0 || res.Stdout != "tree\n" {
				bad("cat-file-kind", "cat-file -t of a tree of %d entries printed %q (exit %d)", len(es), trunc(res.Stdout, 40), res.Exit)
			}
			break
		}
		lines := strings.Split(strings.TrimSuffix(res.Stdout, "\n"), "\n")
		if res.Exit != 0 || len(lines) != len(es) {
			bad("cat-file-tree-entries", "cat-file -p of a tree of %d entries printed %d lines (exit %d)", len(es), len(lines), res.Exit)
			break
		}
		for i, en := range es {
			if !strings.Contains(lines[i], en.ID) || !strings.HasSuffix(lines[i], en.Name) {
				bad("cat-file-tree-entries", "line %d of the listing is %q; the stored entry is %s %s", i, trunc(lines[i], 120), en.ID, trunc(en.Name, 60))
				break
			}
		}
	case st.Cmd() == "hash-object" && len(st.Args) > 2:
		// several files in one invocation: one id per argument, each the id of that file
		want := ""
		for _, f := range st.Args[1:] {
			want += BlobID(pa.W[f]) + "\n"
		}
		if res.Exit != 0 || res.Stdout != want {
			bad("hash-object-prints-git-id", "hash-object %v printed %q (exit %d), expected %q", st.Args[1:], trunc(res.Stdout, 200), res.Exit, trunc(want, 200))
		}
	case st.Cmd() == "hash-object":
		if res.Exit != 0 || res.Stdout != id+"\n" {
			bad("hash-object-prints-git-id", "hash-object printed %q (exit %d), SHA-1('blob %d\\0'+bytes) is %s", trunc(res.Stdout, 60), res.Exit, len(data), id)
		}
	case st.Cmd() == "add":
		qa := post.Abs()
		if res.Exit != 0 {
			bad("add-stores-blob", "add failed")
			break
		}
		if qa.IndexMap()["f"] != id {
			bad("add-stores-blob", "staged id %q, expected %s", qa.IndexMap()["f"], id)
		}
		o := qa.GoodObj(id)
		if o == nil || o.Kind != "blob" || string(o.Body) != string(data) {
			bad("add-stores-blob", "the blob %s is not stored with kind blob and the file's %d bytes", id, len(data))
		}
	case st.Cmd() == "cat-file" && len(st.Args) == 3 && st.Args[1] == "-t":
		if res.Exit != 0 || res.Stdout != "blob\n" {
			bad("cat-file-kind", "cat-file -t printed %q (exit %d)", trunc(res.Stdout, 40), res.Exit)
		}
	case st.Cmd() == "cat-file" && len(st.Args) == 3 && st.Args[1] == "-p":
		if res.Exit != 0 || res.Stdout != string(data)+"\n" {
			bad("cat-file-bytes", "cat-file -p printed %d bytes (exit %d), stored %d bytes (+ newline); first difference at %d", len(res.Stdout), res.Exit, len(data), firstDiff(res.Stdout, string(data)+"\n"))
		}
	}
	return vs, len(vs) == 0
}

func firstDiff(a, b string) int {
	for i := 0; i < len(a) && i < len(b); i++ {
		if a[i] != b[i] {
			return i
		}
	}
	if len(a) != len(b) {
		if len(a) < len(b) {
			return len(a)
		}
		return len(b)
	}
	return -1
}

func xorshiftBytes(n int) []byte {
	b := make([]byte, n)
	x := uint64(0x9E3779B97F4A7C15)
	for i := range b {
		x ^= x << 13
		x ^= x >> 7
		x ^= x << 17
		b[i] = byte(x)
	}
	return b
}

func checkC01(e *RunEnv) *CheckResult {
	spec := &Spec{Depth: 0, CheckTrans: c01Trans}
	var hsum *HarnessSummary
	var hvs []Violation
	var cli int
	runH := func() []Violation {
		vs, sum := runHarness(e, "h01", nil, func(shard int, journal, stderr string) *Violation {
			return &Violation{Oracle: "no-fatal", Command: "object-store", Detail: "harness process died while handling case " + journal + ": " + stderr}
		})
		hsum = sum
		return vs
	}
	res := runSpecWith(e, spec, func(x *Explorer) {
		hvs = runH()
		// CLI layer: short strings and boundary sizes as files
		base := x.BuildState(seedS0())
		if base == nil {
			return
		}
		var payloads [][]byte
		sigma := []byte{0x00, 0x0a, 0x20, '0', '3', 'b', 0xff}
		payloads = append(payloads, []byte{})
		for _, a := range sigma {
			payloads = append(payloads, []byte{a})
			for _, b := range sigma {
				payloads = append(payloads, []byte{a, b})
			}
		}
		for _, sz := range []int{9, 10, 11, 99, 100, 101, 4095, 4096, 4097, 65535, 65536, 65537, 1 << 20} {
			payloads = append(payloads, make([]byte, sz), xorshiftBytes(sz), []byte(strings.Repeat("blob 3\x00abc", sz/10+1)[:sz]))
		}
		for _, p := range []string{"blob 3\x00abc", "tree 0\x00", "commit 99999999999999999999\x00", "12 ", " 1", "3\x00"} {
			payloads = append(payloads, []byte(p))
		}
		var cs []Case
		for _, p := range payloads {
			id := BlobID(p)
			t := []string{}
			if len(p) == 0 {
				t = append(t, "payload-empty")
			}
			if strings.Contains(string(p), "\x00") {
				t = append(t, "payload-has-nul")
			}
			steps := []Step{{Op: "write", Path: "f", Data: p}, Write("g", "other file\n"), Run("hash-object", "f").WithTags(t...), Run("hash-object", "g", "f", "g", "f").WithTags(t...), Run("add", "f").WithTags(t...), Run("cat-file", "-t", id).WithTags(t...), Run("cat-file", "-p", id).WithTags(t...)}
			cs = append(cs, Case{Base: base, BaseName: "S0", BaseSeed: seedS0(), Steps: steps})
		}
		// a temporary file left behind by an interrupted earlier attempt to store the same blob
		for _, p := range [][]byte{[]byte("left behind\n"), {}, xorshiftBytes(4097)} {
			id := BlobID(p)
			t := []string{"leftover-tmp"}
			cs = append(cs, Case{Base: base, BaseName: "S0", BaseSeed: seedS0(), Steps: []Step{{Op: "write", Path: "f", Data: p}, Write(".goit/objects/"+id[:2]+"/"+id[2:]+".tmp", "partial"), Run("add", "f").WithTags(t...), Run("cat-file", "-t", id).WithTags(t...), Run("cat-file", "-p", id).WithTags(t...)}})
		}
		// a branch whose name is the id of the blob: cat-file of that id is still the blob
		for _, p := range [][]byte{[]byte("named like a branch\n")} {
			id := BlobID(p)
			cs = append(cs, Case{Base: base, BaseName: "S0", BaseSeed: seedS0(), Steps: []Step{{Op: "write", Path: "f", Data: p}, Run("add", "f"), Run("commit", "-m", "m"), Run("branch", id), Run("branch", "HEAD"),
				Run("cat-file", "-t", id).WithTags("branch-named-like-id"), Run("cat-file", "-p", id).WithTags("branch-named-like-id")}})
		}
		// tree objects: 150 and 900 entries (more than 4 KiB / 32 KiB of tree data), entry names of 250 and 255 bytes
		for _, n := range []int{150, 900} {
			files := map[string]string{"f": "f\n", strings.Repeat("n", 255): "255\n", "big/" + strings.Repeat("m", 250): "250\n"}
			deep := "deep"
			for i := 1; i <= 40; i++ {
				deep += fmt.Sprintf("/l%d", i)
			}
			files[deep+"/leaf"] = "forty levels down\n"
			for i := 0; i < n; i++ {
				files[fmt.Sprintf("big/file-%04d", i)] = fmt.Sprintf("content %d\n", i)
			}
			ids := map[string]string{}
			var steps []Step
			for _, p := range keys(files) {
				steps = append(steps, Write(p, files[p]))
				ids[p] = BlobID([]byte(files[p]))
			}
			steps = append(steps, Run("add", "."), Run("commit", "-m", "trees"))
			_, trees := BuildTrees(ids)
			for _, tid := range keysB(trees) {
				steps = append(steps, Run("cat-file", "-t", tid).WithTags("tree-listing"), Run("cat-file", "-p", tid).WithTags("tree-listing"))
			}
			cs = append(cs, Case{Base: base, BaseName: "S0", BaseSeed: seedS0(), Steps: steps})
		}
		cli = x.RunCases(cs)
	}, func(x *Explorer, cov map[string]interface{}) {
		cov["states"] = hsum.Distinct + cli
		cov["transitions"] = hsum.Evaluations + int(x.Transitions)
		cov["traces_validated_against_impl"] = hsum.Evaluations + int(x.Transitions)
		cov["evaluations"] = hsum.Evaluations + int(x.Transitions)
		cov["distinct_nontrivial"] = hsum.Distinct + cli
		cov["in_module_cases"] = hsum.Evaluations
		cov["in_module_distinct_objects"] = hsum.Distinct
		cov["cli_payloads"] = cli
		cov["exhaustive"] = x.Exhaustive && hsum.Exhaustive
		cov["samples"] = append(hsum.Samples, x.Samples...)
		cov["rule"] = "in-module: every byte string of length 0..L over {00,0a,20,'0','3','b',ff} x {blob,tree,commit}, boundary sizes x 4 fills, header-shaped payloads, all ordered pairs of short strings sharing a fan-out directory; each case = NewObject+Write+independent decode+GetObject, twice; CLI: hash-object/add/cat-file on every short string and boundary size; distinct_nontrivial = distinct object ids stored + CLI payloads"
	})
	res.Violations = append(res.Violations, hvs...)
	oldRejudge := res.Rejudge
	var rerun []Violation
	var rerunDone bool
	res.Rejudge = func(v *Violation) []Violation {
		if v.Case != nil || v.Oracle == "no-fatal" {
			// the harness is deterministic: one complete second run confirms every in-module violation
			if !rerunDone {
				rerun, rerunDone = runH(), true
			}
			return rerun
		}
		return oldRejudge(v)
	}
	return res
}
