package main

// Explicit-state, level-synchronous BFS over real executions of the goit binary.

import (
	"encoding/base64"
	"encoding/json"
	"fmt"
	"path/filepath"
	"sort"
	"strings"
	"sync"
	"sync/atomic"
	"time"
)

// Step is one edge label: an environment action performed by the harness, or one
// execution of the binary.
type Step struct {
	Op   string   `json:"op"`             // run | write | delete | rmdir | mkdir | homewrite | homedelete
	Args []string `json:"args,omitempty"` // run
	Path string   `json:"path,omitempty"`
	Data []byte   `json:"-"`
	B64  string   `json:"data_b64,omitempty"`
	Env  []string `json:"env,omitempty"`
	Tags []string `json:"tags,omitempty"` // input features computed before the step runs
	// Invalid marks an invocation that is invalid by its arguments alone (decided by
	// the generator, never from the error text).
	Invalid bool `json:"invalid,omitempty"`
	// Sub: a composite step (Op "seq"): harness actions and commands executed as one
	// edge; only its last command is judged.
	Sub []Step `json:"sub,omitempty"`
}

func Seq(sub ...Step) Step { return Step{Op: "seq", Sub: sub} }

// flatten expands composite steps.
func flatten(steps []Step) []Step {
	var out []Step
	for _, s := range steps {
		if s.Op == "seq" {
			for _, x := range flatten(s.Sub) {
				x.Tags = append(append([]string{}, x.Tags...), s.Tags...)
				out = append(out, x)
			}
		} else {
			out = append(out, s)
		}
	}
	return out
}

func Run(args ...string) Step           { return Step{Op: "run", Args: args} }
func Write(path, data string) Step      { return Step{Op: "write", Path: path, Data: []byte(data)} }
func Delete(path string) Step           { return Step{Op: "delete", Path: path} }
func Rmdir(path string) Step            { return Step{Op: "rmdir", Path: path} }
func Mkdir(path string) Step            { return Step{Op: "mkdir", Path: path} }
func (s Step) WithEnv(e ...string) Step { s.Env = append(append([]string{}, s.Env...), e...); return s }
func (s Step) WithTags(t ...string) Step {
	s.Tags = append(append([]string{}, s.Tags...), t...)
	return s
}

func (s Step) String() string {
	switch s.Op {
	case "run":
		q := make([]string, len(s.Args))
		for i, a := range s.Args {
			q[i] = shQuote(a)
		}
		pre := ""
		if len(s.Env) > 0 {
			pre = strings.Join(s.Env, " ") + " "
		}
		return pre + "goit " + strings.Join(q, " ")
	case "seq":
		return traceString(s.Sub)
	case "write":
		return fmt.Sprintf("write %s (%d bytes %q)", shQuote(s.Path), len(s.Data), trunc(string(s.Data), 24))
	default:
		return s.Op + " " + shQuote(s.Path)
	}
}

func (s Step) Cmd() string {
	if s.Op == "seq" && len(s.Sub) > 0 {
		return s.Sub[len(s.Sub)-1].Cmd()
	}
	if s.Op == "run" && len(s.Args) > 0 {
		return s.Args[0]
	}
	return s.Op
}

func trunc(s string, n int) string {
	if len(s) > n {
		return s[:n] + "…"
	}
	return s
}

func shQuote(s string) string {
	if s != "" && !strings.ContainsAny(s, " \t\n'\"\\$`(){}[]*?!#&;<>|~") {
		return s
	}
	return "'" + strings.ReplaceAll(s, "'", `'\''`) + "'"
}

func (s Step) MarshalJSON() ([]byte, error) {
	type alias Step
	a := alias(s)
	if s.Data != nil {
		a.B64 = base64.StdEncoding.EncodeToString(s.Data)
	}
	return json.Marshal(a)
}

func (s *Step) UnmarshalJSON(b []byte) error {
	type alias Step
	var a alias
	if err := json.Unmarshal(b, &a); err != nil {
		return err
	}
	*s = Step(a)
	if s.B64 != "" || s.Op == "write" || s.Op == "homewrite" {
		d, err := base64.StdEncoding.DecodeString(s.B64)
		if err != nil {
			return err
		}
		s.Data = d
		if s.Data == nil {
			s.Data = []byte{}
		}
	}
	return nil
}

// ApplyEnv applies a harness action to a state in memory (no process involved).
func ApplyEnv(s *State, st Step) *State {
	n := s.Clone()
	switch st.Op {
	case "write":
		n.WriteFile(st.Path, st.Data)
	case "delete":
		n.DeleteFile(st.Path)
	case "rmdir":
		n.RemoveDir(st.Path)
	case "mkdir":
		n.key = ""
		p := "root/" + st.Path
		for d := p; d != "root" && d != "."; d = filepath.Dir(d) {
			n.Dirs[d] = true
		}
	case "homewrite":
		n.key = ""
		n.Files["home/"+st.Path] = st.Data
	case "homedelete":
		n.key = ""
		delete(n.Files, "home/"+st.Path)
	default:
		panic("ApplyEnv: " + st.Op)
	}
	return n
}

// Node is a reached state with the path that reached it.
type Node struct {
	State  *State
	abs    *Abs
	absMu  sync.Mutex
	Depth  int
	Parent *Node
	Via    Step
	Seed   string
	key    string // state key (kept when the snapshot itself is dropped)
	// SeedSteps (root nodes only): the trace from the empty directory that produced this state
	SeedSteps []Step
}

// Root returns the seed node of n.
func (n *Node) Root() *Node {
	for n.Parent != nil {
		n = n.Parent
	}
	return n
}

func (n *Node) Abs() *Abs {
	n.absMu.Lock()
	defer n.absMu.Unlock()
	if n.abs == nil {
		n.abs = n.State.Abs()
	}
	return n.abs
}

func (n *Node) Trace() []Step {
	var rev []Step
	for x := n; x != nil && x.Parent != nil; x = x.Parent {
		rev = append(rev, x.Via)
	}
	out := make([]Step, len(rev))
	for i := range rev {
		out[i] = rev[len(rev)-1-i]
	}
	return flatten(out)
}

type Seed struct {
	Name  string
	Steps []Step
}

type Violation struct {
	Property string      `json:"property"`
	Oracle   string      `json:"oracle"`
	Command  string      `json:"command"`
	Tags     []string    `json:"tags"`
	Site     string      `json:"site,omitempty"`
	Detail   string      `json:"detail"`
	Seed     string      `json:"seed,omitempty"`
	Trace    []Step      `json:"steps,omitempty"`
	Case     interface{} `json:"case,omitempty"` // in-module harness case
	Env      []string    `json:"env,omitempty"`
	Binary   string      `json:"binary,omitempty"`
	Inject   string      `json:"inject,omitempty"` // VERIF_CRASH_AT=k / VERIF_FAIL_AT=k:errno for the last command (replay script)
	Count    int         `json:"-"`
}

// Spec describes one exploration.
type Spec struct {
	Seeds []Seed
	Depth int
	// Steps lists the steps enabled in a state.
	Steps func(n *Node) []Step
	// CheckTrans judges one executed command; expand=false stops exploration behind it.
	CheckTrans func(c *Ctx, pre *Node, st Step, res *Result, post *State) (vs []Violation, expand bool)
	// CheckState judges a newly reached state (invariants, probes).
	CheckState func(c *Ctx, n *Node) []Violation
	Env        []string
	MaxStates  int
	// KeepStates keeps the disk snapshot of every reached state after the exploration (needed when the
	// nodes are used as a corpus afterwards). By default a snapshot is dropped as soon as its state has been
	// judged and expanded: what stays is the key, the parent link and the step (enough for traces).
	KeepStates bool
}

// Ctx is handed to oracles: a private sandbox for probes, the binary, counters.
type Ctx struct {
	SB  *Sandbox
	Bin string
	X   *Explorer
}

// Probe runs a read-only command on state s in the worker's sandbox and returns the
// result and whether the state key stayed the same.
func (c *Ctx) Probe(s *State, extraEnv []string, args ...string) (*Result, *State) {
	atomic.AddInt64(&c.X.Probes, 1)
	r, post, err := c.SB.Exec(s, c.Bin, append(append([]string{}, c.X.Spec.Env...), extraEnv...), args...)
	if err != nil {
		harnessFatal("probe exec: %v", err)
	}
	return r, post
}

type Explorer struct {
	Spec     *Spec
	Bin      string
	Scratch  string
	Workers  int
	Deadline time.Time

	mu          sync.Mutex
	seen        map[string]*Node
	Violations  []Violation
	States      int
	Transitions int64
	Probes      int64
	SelfLoops   int64
	Pruned      int64
	Outcomes    map[string]int // "<cmd>:applied|refused|panic"
	Completed   int            // largest fully completed depth
	Exhaustive  bool
	SeedNodes   []*Node
	AllNodes    []*Node
	Samples     []string
	ctxs        []*Ctx
	module      string
}

func NewExplorer(spec *Spec, bin, scratch string, workers int, deadline time.Time) *Explorer {
	x := &Explorer{Spec: spec, Bin: bin, Scratch: scratch, Workers: workers, Deadline: deadline,
		seen: map[string]*Node{}, Outcomes: map[string]int{}}
	for i := 0; i < workers; i++ {
		x.ctxs = append(x.ctxs, &Ctx{SB: NewSandbox(filepath.Join(scratch, fmt.Sprintf("w%d", i))), Bin: bin, X: x})
	}
	return x
}

// ExecTrace runs steps from the empty state in sandbox sb and returns every
// intermediate (result, state). Used for seeds, confirmation and replay.
func ExecTrace(sb *Sandbox, bin string, env []string, steps []Step) (states []*State, results []*Result, err error) {
	cur := NewState()
	for _, st := range steps {
		var r *Result
		if st.Op == "run" {
			var post *State
			r, post, err = sb.Exec(cur, bin, append(append([]string{}, env...), st.Env...), st.Args...)
			if err != nil {
				return nil, nil, err
			}
			cur = post
		} else {
			cur = ApplyEnv(cur, st)
		}
		states = append(states, cur)
		results = append(results, r)
	}
	return states, results, nil
}

func (x *Explorer) addViolations(vs []Violation, n *Node, st *Step) {
	if len(vs) == 0 {
		return
	}
	x.mu.Lock()
	defer x.mu.Unlock()
	for _, v := range vs {
		if v.Trace == nil {
			v.Trace = x.fullTrace(n, st)
		}
		if v.Seed == "" && n != nil {
			v.Seed = n.Seed
		}
		if v.Env == nil {
			v.Env = x.Spec.Env
		}
		x.Violations = append(x.Violations, v)
	}
}

func (x *Explorer) fullTrace(n *Node, st *Step) []Step {
	var t []Step
	if n != nil {
		if r := n.Root(); r.SeedSteps != nil {
			t = append(t, r.SeedSteps...)
		} else {
			for _, sd := range x.Spec.Seeds {
				if sd.Name == n.Seed {
					t = append(t, sd.Steps...)
				}
			}
		}
		t = append(t, n.Trace()...)
	}
	if st != nil {
		t = append(t, *st)
	}
	return flatten(t)
}

func (x *Explorer) parallel(n int, f func(c *Ctx, i int)) {
	var wg sync.WaitGroup
	var next int64 = -1
	for w := 0; w < x.Workers; w++ {
		wg.Add(1)
		go func(c *Ctx) {
			defer wg.Done()
			for {
				i := int(atomic.AddInt64(&next, 1))
				if i >= n {
					return
				}
				f(c, i)
			}
		}(x.ctxs[w])
	}
	wg.Wait()
}

// Run explores. It returns when the depth bound is completed or the deadline fires.
func (x *Explorer) Run() {
	// seeds
	var frontier []*Node
	for _, sd := range x.Spec.Seeds {
		states, results, err := ExecTrace(x.ctxs[0].SB, x.Bin, x.Spec.Env, sd.Steps)
		if err != nil {
			harnessFatal("seed %s: %v", sd.Name, err)
		}
		seedOK := true
		for i, r := range results {
			if r != nil && r.Exit != 0 && !sd.Steps[i].Invalid {
				x.Violations = append(x.Violations, Violation{Oracle: "seed-command-succeeds", Command: sd.Steps[i].Cmd(), Trace: sd.Steps[:i+1], Seed: sd.Name,
					Detail: "an ordinary command of seed scenario " + sd.Name + " failed: " + sd.Steps[i].String() + outputTail(r)})
				seedOK = false
				break
			}
		}
		if !seedOK {
			continue
		}
		st := NewState()
		if len(states) > 0 {
			st = states[len(states)-1]
		}
		n := &Node{State: st, Seed: sd.Name, SeedSteps: sd.Steps}
		if _, dup := x.seen[st.Key()]; !dup {
			x.seen[st.Key()] = n
			frontier = append(frontier, n)
			x.SeedNodes = append(x.SeedNodes, n)
		}
	}
	x.States = len(frontier)
	x.AllNodes = append(x.AllNodes, frontier...)
	x.checkStates(frontier)
	for depth := 0; depth < x.Spec.Depth && len(frontier) > 0; depth++ {
		type job struct {
			n  *Node
			st Step
		}
		var jobs []job
		for _, n := range frontier {
			for _, st := range x.Spec.Steps(n) {
				jobs = append(jobs, job{n, st})
			}
		}
		var next []*Node
		var aborted int32
		lastLevel := depth+1 >= x.Spec.Depth
		x.parallel(len(jobs), func(c *Ctx, i int) {
			if time.Now().After(x.Deadline) {
				atomic.StoreInt32(&aborted, 1)
				return
			}
			j := jobs[i]
			var post *State
			expand := true
			preNode := j.n
			last := j.st
			if j.st.Op == "seq" {
				// execute all but the last sub-step, then treat the last one as the step
				subs := flatten(j.st.Sub)
				cur := j.n.State
				for _, sub := range subs[:len(subs)-1] {
					if sub.Op == "run" {
						_, p, err := c.SB.Exec(cur, x.Bin, append(append([]string{}, x.Spec.Env...), sub.Env...), sub.Args...)
						if err != nil {
							harnessFatal("exec: %v", err)
						}
						cur = p
						atomic.AddInt64(&x.Transitions, 1)
					} else {
						cur = ApplyEnv(cur, sub)
					}
				}
				preNode = &Node{State: cur, Parent: j.n, Via: Seq(subs[:len(subs)-1]...), Depth: j.n.Depth, Seed: j.n.Seed}
				last = subs[len(subs)-1]
				last.Tags = append(append([]string{}, last.Tags...), j.st.Tags...)
			}
			if last.Op == "run" {
				r, p, err := c.SB.Exec(preNode.State, x.Bin, append(append([]string{}, x.Spec.Env...), last.Env...), last.Args...)
				if err != nil {
					harnessFatal("exec: %v", err)
				}
				post = p
				atomic.AddInt64(&x.Transitions, 1)
				cls := "applied"
				if r.Panicked() {
					cls = "panic"
				} else if r.Exit != 0 {
					cls = "refused"
				}
				var vs []Violation
				if r.TimedOut {
					vs = append(vs, Violation{Oracle: "terminates", Command: j.st.Cmd(), Tags: j.st.Tags, Detail: "timeout"})
					expand = false
				} else if x.Spec.CheckTrans != nil {
					vs, expand = x.Spec.CheckTrans(c, preNode, last, r, post)
				}
				x.mu.Lock()
				x.Outcomes[j.st.Cmd()+":"+cls]++
				if len(x.Samples) < 6 && i%97 == 0 {
					x.Samples = append(x.Samples, fmt.Sprintf("[%s] %s => exit %d", j.n.Seed, traceString(append(j.n.Trace(), j.st)), r.Exit))
				}
				x.mu.Unlock()
				x.addViolations(vs, j.n, &j.st)
			} else {
				post = ApplyEnv(preNode.State, last)
				atomic.AddInt64(&x.Transitions, 1)
			}
			if !expand {
				atomic.AddInt64(&x.Pruned, 1)
				return
			}
			k := post.Key()
			if k == j.n.State.Key() {
				atomic.AddInt64(&x.SelfLoops, 1)
				return
			}
			x.mu.Lock()
			var fresh *Node
			if _, dup := x.seen[k]; !dup && (x.Spec.MaxStates == 0 || len(x.seen) < x.Spec.MaxStates) {
				nn := &Node{State: post, Depth: depth + 1, Parent: j.n, Via: j.st, Seed: j.n.Seed, key: k}
				x.seen[k] = nn
				next = append(next, nn)
				fresh = nn
			}
			x.mu.Unlock()
			if fresh != nil && lastLevel && !x.Spec.KeepStates {
				// the deepest level is the largest: judge each of its states at once and let go of the snapshot
				if x.Spec.CheckState != nil {
					x.addViolations(x.Spec.CheckState(c, fresh), fresh, nil)
				}
				fresh.State, fresh.abs = nil, nil
			}
		})
		if aborted != 0 {
			x.Exhaustive = false
			break
		}
		// deterministic order
		sort.Slice(next, func(a, b int) bool { return next[a].key < next[b].key })
		x.States += len(next)
		x.AllNodes = append(x.AllNodes, next...)
		if !(lastLevel && !x.Spec.KeepStates) && !x.checkStates(next) {
			x.Exhaustive = false
			break
		}
		x.Completed = depth + 1
		if !x.Spec.KeepStates {
			for _, n := range frontier {
				n.State, n.abs = nil, nil // expanded: only key, parent and step are needed from here on
			}
		}
		frontier = next
	}
}

func (x *Explorer) checkStates(ns []*Node) bool {
	if x.Spec.CheckState == nil {
		return true
	}
	var aborted int32
	x.parallel(len(ns), func(c *Ctx, i int) {
		if time.Now().After(x.Deadline) {
			atomic.StoreInt32(&aborted, 1)
			return
		}
		vs := x.Spec.CheckState(c, ns[i])
		x.addViolations(vs, ns[i], nil)
	})
	return aborted == 0
}

func traceString(t []Step) string {
	parts := make([]string, len(t))
	for i, s := range t {
		parts[i] = s.String()
	}
	return strings.Join(parts, " ; ")
}
