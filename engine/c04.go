package main

import (
	"fmt"
	"strings"
)

func init() { registry["C04"] = checkC04 }

// file contents derived from the path; "big" has two versions of the same length, 64 KiB
// (an exact multiple of the 32 KiB zlib window and of every common buffer size)
func v1(p string) string {
	switch p {
	case "big":
		return strings.Repeat("0123456789abcdef", 4096)
	case "ad", "t":
		return "" // an empty file
	case "D", "test.c":
		return p + " without a newline at the end"
	}
	return p + " v1\n"
}
func v2(p string) string {
	if p == "big" {
		return strings.Repeat("fedcba9876543210", 4096)
	}
	return p + " v2\n"
}

func checkC04(e *RunEnv) *CheckResult {
	paths := []string{"a", "d/x", "d/y", "d/s/z", "ad/x", "d-x", "d0", "a b", "d/.goit", "big"}
	spellings := []string{"", ".", "nonexist/../a", "@ROOT@/a", "@ROOT@/d", "../root/d/x", "@ROOT@", "d/", "./d", "./a", "d/s/.", "d//x", "../root"}
	singles := []string{"big", "a", "d/x", "d/y", "d/s/z", "ad/x", "d-x", "d0", "a b", "d", "d/s", "ad", "nope", "d/nope", "d/", "./d", "./a", "d/s/."}
	pairAlpha := []string{"a", "d", "d/x", "nope"}
	if e.Thorough() {
		pairAlpha = []string{"a", "d", "d/x", "nope", "ad", "d-x", "d/s"}
	}
	if !e.Thorough() {
		singles = singles[:len(singles)-3] // quick: without the last three un-normalised spellings
	}
	var argLists [][]string
	for _, s := range singles {
		argLists = append(argLists, []string{s})
	}
	for _, x := range pairAlpha {
		for _, y := range pairAlpha {
			argLists = append(argLists, []string{x, y})
		}
	}
	if !e.Thorough() {
		argLists = append(argLists, []string{"d", "ad"}, []string{"ad", "d"}) // two directories in one command
	}
	seedA := append(seedS0(), Write("d0", v1("d0")), Write("a b", v1("a b")), Write("a", v1("a")), Write("d/x", v1("d/x")), Write("d/y", v1("d/y")), Write("ad/x", v1("ad/x")), Write("d-x", v1("d-x")), Write("d/s/z", v1("d/s/z")))
	seedB := append(append([]Step{}, seedA...), Write("big", v1("big")), Run("add", "a", "d", "ad", "d-x", "d0", "a b", "big"), Run("commit", "-m", "c1"))
	spec := &Spec{
		Seeds: []Seed{{"S0+files", seedA}, {"S1+all-tracked", seedB}},
		Depth: e.depth(3, 4),
		Steps: func(n *Node) []Step {
			a := n.Abs()
			var steps []Step
			als := argLists
			if e.Thorough() && n.Depth <= 1 {
				// thorough: the spelling variants in every state near the seeds as well (quick: as cases, below)
				als = append([][]string{}, argLists...)
				for _, sp := range spellings {
					als = append(als, []string{sp})
				}
			}
			for _, al := range als {
				t := pathArgTags(a, al)
				steps = append(steps, Run(append([]string{"add"}, al...)...).WithTags(t...))
				steps = append(steps, Run(append([]string{"rm"}, al...)...).WithTags(t...))
			}
			for _, al := range [][]string{{"a", "d", "nope"}, {"a", "d/x", "d-x"}, {"d/s", "a", "ad"}, {"a", "./a", "d-x"}, {"d/x", "d", "d0"}} {
				t3 := pathArgTags(a, al)
				steps = append(steps, Run(append([]string{"add"}, al...)...).WithTags(t3...), Run(append([]string{"rm"}, al...)...).WithTags(t3...))
			}
			steps = append(steps, Run("rm", "d", "-r").WithTags(pathArgTags(a, []string{"d"})...), Run("rm", "-r", "d/s").WithTags(pathArgTags(a, []string{"d/s"})...))
			for _, p := range paths {
				if d, ok := a.W[p]; ok {
					if string(d) != v2(p) {
						steps = append(steps, Write(p, v2(p)))
					} else if p == "a" || p == "d/x" {
						// back to the first version: bytes the object store already holds under another staged id
						steps = append(steps, Write(p, v1(p)))
					}
					steps = append(steps, Delete(p))
				} else {
					steps = append(steps, Write(p, v1(p)))
				}
			}
			if hasDirOnDisk(a, "d") {
				steps = append(steps, Rmdir("d"))
			}
			steps = append(steps, Write("d/u", "untracked\n"))
			// type change: the file a replaced by a directory a/ holding an untracked file
			if _, ok := a.W["a"]; ok {
				steps = append(steps, Write("a/u", "untracked inside a former file\n"))
			}
			if _, ok := a.W["d/x"]; ok {
				steps = append(steps, Write("d/x/u", "untracked inside a former file of d\n"))
			}
			// a temporary file left behind by an earlier, interrupted attempt to store the blob of a
			if d, ok := a.W["a"]; ok {
				id := BlobID(d)
				if _, stored := a.Objects[id]; !stored {
					steps = append(steps, Write(".goit/objects/"+id[:2]+"/"+id[2:]+".tmp", "left behind"))
				}
			}
			return steps
		},
		CheckTrans: func(c *Ctx, pre *Node, st Step, res *Result, post *State) ([]Violation, bool) {
			pa, qa := pre.Abs(), post.Abs()
			outs := Allowed(pa, st)
			if outs == nil {
				return nil, true
			}
			var vs []Violation
			if ok, why := MatchAny(outs, pa, qa, res, Components{I: true, W: true}); !ok {
				oracle := "staging-exact"
				if res.Panicked() {
					oracle = "staging-exact-panic"
				}
				vs = append(vs, Violation{Oracle: oracle, Command: st.Cmd(), Tags: st.Tags, Detail: "model disagrees: " + why + outputTail(res)})
			}
			for _, p := range qa.Fsck() {
				if p.Class == "index-entries-have-blobs" {
					vs = append(vs, Violation{Oracle: "staged-blob-stored", Command: st.Cmd(), Tags: st.Tags, Detail: p.Msg})
					break
				}
			}
			return vs, len(vs) == 0
		},
	}
	var sweep int
	return runSpecWith(e, spec, func(x *Explorer) {
		base := x.BuildState(seedS0())
		if base == nil {
			return
		}
		var cs []Case
		for _, set := range subsetsUpTo(sharpNames, e.pick(2, 3)) {
			pre := sweepBase(set)
			// every path and every directory prefix as argument of rm and (after edits) of add
			argsList := append(append([]string{}, set...), dirPrefixes(set)...)
			for _, arg := range argsList {
				cs = append(cs, Case{Base: base, BaseName: "S0", BaseSeed: seedS0(), Steps: append(append([]Step{}, pre...), Write("zz untracked", "u\n"), Run("rm", arg))})
				ed := append([]Step{}, pre...)
				for _, p := range set {
					ed = append(ed, Write(p, v2(p)))
				}
				ed = append(ed, Delete(set[len(set)-1]), Run("add", arg), Run("add", arg))
				cs = append(cs, Case{Base: base, BaseName: "S0", BaseSeed: seedS0(), Steps: ed})
			}
		}
		// un-normalised, absolute and dot spellings of arguments: what a spelling means does not depend on the state,
		// so a few states carry the whole spelling alphabet (the BFS of the thorough tier has it in every state)
		{
			dirty := []Step{Write("a", v2("a")), Delete("d/y"), Write("d/new", "new\n"), Write("zz untracked", "u\n")}
			for bi, b := range [][]Step{seedA, seedB, append(append([]Step{}, seedB...), dirty...)} {
				bs := x.BuildState(b)
				if bs == nil {
					continue
				}
				for _, sp := range spellings {
					for _, cmd := range []string{"add", "rm"} {
						cs = append(cs, Case{Base: bs, BaseName: fmt.Sprintf("spelling-base-%d", bi), BaseSeed: b, Steps: []Step{Run(cmd, sp).WithTags("spelling")}})
					}
				}
			}
		}
		// second versions staged on top of committed first versions, then back to the first version: bytes the object
		// store already holds, under a path that is staged with another id
		{
			seedC := append(append([]Step{}, seedB...), Write("a", v2("a")), Write("d/x", v2("d/x")), Run("add", "a", "d/x"))
			if bs := x.BuildState(seedC); bs != nil {
				for _, tail := range [][]Step{
					{Write("a", v1("a")), Run("add", "a")},
					{Write("d/x", v1("d/x")), Run("add", "d")},
					{Write("a", v1("a")), Write("d/x", v1("d/x")), Run("add", ".")},
					{Write("a", v1("d/x")), Write("d/x", v1("a")), Run("add", "a", "d/x")}, // two files exchanging contents
				} {
					cs = append(cs, Case{Base: bs, BaseName: "S1+second-versions-staged", BaseSeed: seedC, Steps: tail})
				}
			}
		}
		// 250 path arguments in one command
		{
			var many []Step
			var names []string
			for i := 0; i < 250; i++ {
				p := fmt.Sprintf("m/f%03d", i)
				names = append(names, p)
				many = append(many, Write(p, v1(p)))
			}
			many = append(many, Write("m/untracked", "u\n"), Run(append([]string{"add"}, names...)...), Run("commit", "-m", "m"), Write(names[7], v2(names[7])), Delete(names[9]),
				Run(append([]string{"add"}, names...)...), Run(append([]string{"rm"}, names[10:]...)...), Run(append([]string{"rm"}, names[:9]...)...))
			cs = append(cs, Case{Base: base, BaseName: "S0", BaseSeed: seedS0(), Steps: many})
		}
		sweep = x.RunCases(cs)
	}, func(x *Explorer, cov map[string]interface{}) {
		cov["name_sweep_cases"] = sweep
		cov["states"] = x.States + sweep
	})
}

func outputTail(r *Result) string {
	s := r.Stdout + r.Stderr
	if len(s) > 300 {
		s = s[:300] + "…"
	}
	if s == "" {
		return ""
	}
	return " [exit " + itoa(r.Exit) + ": " + s + "]"
}
