package main

import "strings"

func init() {
	registry["C06"] = checkC06
	harnessList = append(harnessList, "h06")
}

var universe16 = []string{"d/x", "d/y/z", "ad/x", "d-old", "d.x", "d0", "d", "D/x", "a d/x", "a+b/x", "a(b", "a.b/x", "axb/x", "é/x", "x", "dd/x"}

func c06Trans(c *Ctx, pre *Node, st Step, res *Result, post *State) ([]Violation, bool) {
	cmd := st.Cmd()
	if cmd != "rm" && cmd != "restore" && cmd != "add" && cmd != "reset" {
		return nil, true
	}
	pa, qa := pre.Abs(), post.Abs()
	var vs []Violation
	if qa.IndexErr != nil {
		vs = append(vs, Violation{Oracle: "index-file-decodes", Command: cmd, Tags: st.Tags, Detail: qa.IndexErr.Error()})
		return vs, false
	}
	for i := 1; i < len(qa.Index); i++ {
		if qa.Index[i-1].Path >= qa.Index[i].Path {
			vs = append(vs, Violation{Oracle: "index-file-canonical", Command: cmd, Tags: st.Tags, Detail: "entries not strictly ascending: " + qa.Index[i-1].Path + " before " + qa.Index[i].Path})
			return vs, false
		}
	}
	if !hasTag(st.Tags, "judge") {
		return nil, true
	}
	outs := Allowed(pa, st)
	if outs == nil {
		return nil, true
	}
	if ok, why := MatchAny(outs, pa, qa, res, Components{I: true, W: true}); !ok {
		o := "tracked-path-addressable"
		if res.Panicked() {
			o += "-panic"
		}
		vs = append(vs, Violation{Oracle: o, Command: cmd, Tags: st.Tags, Detail: "model disagrees: " + why + outputTail(res)})
	}
	return vs, len(vs) == 0
}

func checkC06(e *RunEnv) *CheckResult {
	spec := &Spec{Depth: 0, CheckTrans: c06Trans}
	var hsum *HarnessSummary
	var hvs []Violation
	var cli int
	runH := func() []Violation {
		vs, sum := runHarness(e, "h06", nil, func(shard int, journal, stderr string) *Violation {
			return &Violation{Oracle: "no-fatal", Command: "index", Detail: "harness process died while handling " + journal + ": " + stderr}
		})
		hsum = sum
		return vs
	}
	res := runSpecWith(e, spec, func(x *Explorer) {
		hvs = runH()
		base := x.BuildState(seedS0())
		if base == nil {
			return
		}
		queries := []string{"d", "ad", "a", "a(b", "a.b", "a+b", "d-old", "x", "dd", "a d", "D", "é"}
		var cs []Case
		for _, set := range subsetsUpTo(universe16, e.pick(2, 3)) {
			var pre []Step
			for _, p := range set {
				pre = append(pre, Write(p, v1(p)))
			}
			pre = append(pre, Run(append([]string{"add"}, topLevel(set)...)...))
			nt := nameSetTags(set)
			// the staging area rewritten from a commit must be canonical as well
			cs = append(cs, Case{Base: base, BaseName: "S0", BaseSeed: seedS0(), Steps: append(append([]Step{}, pre...), Run("commit", "-m", "m"), Run("reset", "--mixed", "HEAD@{0}").WithTags(nt...), Run(append([]string{"add"}, topLevel(set)...)...).WithTags(nt...))})
			for _, q := range queries {
				for _, cmd := range []string{"rm", "restore", "add"} {
					steps := append(append([]Step{}, pre...), Run(cmd, q).WithTags(append(append([]string{}, nt...), "judge")...))
					cs = append(cs, Case{Base: base, BaseName: "S0", BaseSeed: seedS0(), Steps: steps})
				}
			}
		}
		// deeper directories: a query must select exactly what lies beneath it, at every level
		deep := []string{"a/b/c", "a/b/d/e", "a/c/x", "a/bc", "a/b.c", "ab/c", "a/.cfg/x"}
		for _, set := range subsetsUpTo(deep, e.pick(3, 4)) {
			if len(set) < 2 {
				continue
			}
			var pre []Step
			for _, p := range set {
				pre = append(pre, Write(p, v1(p)))
			}
			pre = append(pre, Run("add", "a", "ab"), Run("commit", "-m", "m"))
			for _, p := range set {
				pre = append(pre, Write(p, v2(p)))
			}
			pre = append(pre, Run("add", "a", "ab"))
			jt := append(nameSetTags(set), "judge")
			// two variants of the state queried: edits re-staged / additionally one tracked path removed (a staged
			// removal) and a new file, not tracked yet, in the first directory
			pre2 := append(append([]Step{}, pre...), Run("rm", set[0]), Write("a/b/new", "not tracked yet\n"), Write(set[len(set)-1], "edited again, not staged\n"))
			for vi, pv := range [][]Step{pre, pre2} {
				qs := [][]string{{"a/b"}, {"a/c"}, {"a"}, {"a/b/d"}, {"a/b", "a/c"}, {"a/c", "a/b"}, {"ab", "a/b"}}
				if vi == 1 {
					qs = append(qs, []string{"a/b", "a/b/new"}, []string{"a", "./a/b/new"}, []string{"a/b/new", "a/b/new"})
				}
				for _, q := range qs {
					for _, cmd := range [][]string{{"rm"}, {"restore"}, {"restore", "--staged"}, {"add"}} {
						if vi == 1 && len(q) == 2 && strings.HasSuffix(q[1], "new") && cmd[0] != "add" {
							continue
						}
						steps := append(append([]Step{}, pv...), Run(append(append([]string{}, cmd...), q...)...).WithTags(jt...))
						cs = append(cs, Case{Base: base, BaseName: "S0", BaseSeed: seedS0(), Steps: steps})
					}
				}
			}
		}
		// the staging area rewritten from an empty snapshot while it holds entries
		cs = append(cs, Case{Base: base, BaseName: "S0", BaseSeed: seedS0(), Steps: []Step{Write("a", "a\n"), Write("d/x", "x\n"), Run("add", "a", "d"), Run("commit", "-m", "c1"), Run("rm", "a", "d"), Run("commit", "-m", "empty"),
			Write("n1", "n\n"), Write("n2", "n\n"), Run("add", "n1", "n2"), Run("reset", "--mixed", "HEAD@{0}").WithTags("judge-none"), Run("add", "n1").WithTags("judge"), Run("rm", "n1").WithTags("judge")}})
		// staging areas of 200 and 900 entries (the index file exceeds 4 KiB / 64 KiB)
		for _, n := range []int{200, 900} {
			jt := []string{"judge", "large-index"}
			cs = append(cs, Case{Base: base, BaseName: "S0", BaseSeed: seedS0(), Steps: append(hugeDirSteps(n),
				Run("rm", "huge/file-0100.txt").WithTags(jt...), Write("huge/file-0101.txt", "edited\n"), Write("huge/file-0000.txt", "edited\n"), Run("add", "huge").WithTags(jt...),
				Run("restore", "--staged", "huge/file-0100.txt").WithTags(jt...), Run("restore", "--staged", "huge").WithTags(jt...), Run("rm", "v1").WithTags(jt...), Run("rm", "huge").WithTags(jt...))})
		}
		// tags of the judged step need the state: computed in the case runner's pre node
		cli = x.RunCases(cs)
	}, func(x *Explorer, cov map[string]interface{}) {
		cov["states"] = hsum.Distinct + cli
		cov["transitions"] = hsum.Evaluations + int(x.Transitions)
		cov["traces_validated_against_impl"] = hsum.Evaluations + int(x.Transitions)
		cov["evaluations"] = hsum.Evaluations + int(x.Transitions)
		cov["distinct_nontrivial"] = hsum.Distinct + cli
		cov["in_module_calls"] = hsum.Evaluations
		cov["in_module_distinct_entry_sets"] = hsum.Distinct
		cov["cli_cases"] = cli
		cov["exhaustive"] = x.Exhaustive && hsum.Exhaustive
		cov["samples"] = append(hsum.Samples, x.Samples...)
		cov["rule"] = "in-module: every realizable subset (size <= k) of a 16-path universe ordered around '/' x every insertion order through Index.Update, plus DFS (depth d) over update/update-same/delete histories on one live instance; after every operation the index file is decoded independently and compared with a sorted-map model, then every query name is looked up (GetEntry, IsRegisteredAsDirectory, GetEntriesByDirectory) on the live and on a freshly loaded instance; CLI: rm/restore/add <query> on every entry set of size <= 2(3); distinct_nontrivial = distinct entry sets + CLI cases"
	})
	res.Violations = append(res.Violations, hvs...)
	oldRejudge := res.Rejudge
	var rerun []Violation
	var rerunDone bool
	res.Rejudge = func(v *Violation) []Violation {
		if v.Case != nil || v.Oracle == "no-fatal" {
			// the harness is deterministic: one complete second run confirms every in-module violation
			if !rerunDone {
				rerun, rerunDone = runH(), true
			}
			return rerun
		}
		return oldRejudge(v)
	}
	return res
}
