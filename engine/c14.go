package main

import (
	"fmt"
	"strconv"
	"strings"
)

func init() { registry["C14"] = checkC14 }

func c14Trans(c *Ctx, pre *Node, st Step, res *Result, post *State) ([]Violation, bool) {
	if st.Cmd() != "log" {
		return nil, true
	}
	a := pre.Abs()
	tip := a.Tip()
	if tip == "" {
		return nil, true
	}
	k := 5
	for i, x := range st.Args {
		if (x == "-n" || x == "--max-count") && i+1 < len(st.Args) {
			k, _ = strconv.Atoi(st.Args[i+1])
		}
	}
	var vs []Violation
	bad := func(oracle, f string, args ...interface{}) {
		if res.Panicked() {
			oracle += "-panic"
		}
		vs = append(vs, Violation{Oracle: oracle, Command: "log", Tags: st.Tags, Detail: fmt.Sprintf(f, args...)})
	}
	if post.Key() != pre.State.Key() {
		bad("probe-readonly", "log changed the repository")
	}
	chain, err := a.Chain(tip, 1000)
	if err != nil {
		return nil, true
	}
	want := chain
	if k < len(want) {
		want = want[:k]
	}
	if res.Exit != 0 {
		bad("log-works", "log failed%s", outputTail(res))
		return vs, false
	}
	got := ParseLog(res.Stdout)
	var gotIDs []string
	for _, g := range got {
		gotIDs = append(gotIDs, g.ID)
	}
	if fmt.Sprint(gotIDs) != fmt.Sprint(want) {
		bad("log-lists-chain", "log %v printed %d commits %v, expected the %d most recent of the chain %v", st.Args[1:], len(gotIDs), short(gotIDs), len(want), short(want))
		return vs, false
	}
	for _, g := range got {
		cm, err := a.Commit(g.ID)
		if err != nil {
			continue
		}
		sg := ParseSign(cm.Author)
		if sg.OK && g.Author != sg.Name+" <"+sg.Email+">" {
			bad("log-entry-own-author", "commit %s listed with author %q, stored %q", g.ID[:7], g.Author, cm.Author)
			break
		}
		if g.Message != strings.TrimSuffix(cm.Message, "\n") {
			bad("log-entry-own-message", "commit %s listed with message %q, stored %q", g.ID[:7], g.Message, cm.Message)
			break
		}
	}
	return vs, len(vs) == 0
}

func short(ids []string) []string {
	var out []string
	for _, id := range ids {
		out = append(out, trunc(id, 7))
	}
	return out
}

func checkC14(e *RunEnv) *CheckResult {
	Lmax := e.pick(20, 50)
	spec := &Spec{Seeds: nil, Depth: 0, CheckTrans: c14Trans}
	var cases int
	res := runSpecWith(e, spec, func(x *Explorer) {
		chainSteps := seedChain(Lmax)
		states, results, err := ExecTrace(x.ctxs[0].SB, x.Bin, nil, chainSteps)
		if err != nil {
			harnessFatal("%v", err)
		}
		// index of the state after the L-th commit
		after := map[int]int{}
		L := 0
		for i, st := range chainSteps {
			if st.Cmd() == "commit" {
				L++
				after[L] = i
				if results[i].Exit != 0 {
					x.Violations = append(x.Violations, Violation{Oracle: "seed-command-succeeds", Command: "commit", Trace: chainSteps[:i+1], Detail: "commit failed while building the chain" + outputTail(results[i])})
					return
				}
			}
		}
		var cs []Case
		logs := func(L int) []Step {
			ks := []int{0, 1, 2, L - 1, L, L + 1, 5, 6, 100}
			out := []Step{Run("log")}
			seen := map[int]bool{}
			for _, k := range ks {
				if k < 0 || seen[k] {
					continue
				}
				seen[k] = true
				out = append(out, Run("log", "-n", strconv.Itoa(k)))
			}
			return out
		}
		for L := 1; L <= Lmax; L++ {
			base := states[after[L]]
			seed := chainSteps[:after[L]+1]
			variants := [][]Step{
				nil,
				{Write("a", "staged change\n"), Run("add", "a")},
				{Write("a", "worktree change\n"), Write("untracked", "u\n")},
				{Run("branch", "other"), Run("switch", "other"), Write("a", "other\n"), Run("add", "a"), Run("commit", "-m", "on other"), Run("switch", "main")},
				{Run("branch", "dev"), Run("switch", "dev")},
				{Write(".goitignore", "**/build\n*.c++\nnotes[1\n"), Write("x.c++", "x\n")},
				{Run("rm", "a")}, // the staging area emptied: the history is unchanged
				{Mkdir(".goitignore"), Write(".goitignore/x", "a directory named like the ignore file\n")},
				{Write(".goitignore", strings.Repeat("a", 70000)+"\n*.o\n")},
				{Write("a", "empty message\n"), Run("add", "a"), Run("commit", "-m", ""), Write("a", "blank lines\n"), Run("add", "a"), Run("commit", "-m", "\n\n")},
				{Write("a", "hdr2\n"), Run("add", "a"), Run("commit", "-m", "subject\ncommit "+strings.Repeat("0123456789", 4)+"\nAuthor: X <x@y.zz>\nDate: never")},
				{Write("a", "hdr\n"), Run("add", "a"), Run("commit", "-m", "subject\nparent "+strings.Repeat("ab", 20)+"\nauthor A <a@b.co> 1 +0000")},
			}
			if L == 1 || L == 7 {
				// counts far beyond any chain length: still exactly the whole chain
				for _, k := range []string{"1000000", "4294967296", "1000000000000000", "9223372036854775807"} {
					cs = append(cs, Case{Base: base, BaseName: fmt.Sprintf("chain%d", L), BaseSeed: seed, Steps: []Step{Run("log", "-n", k).WithTags("huge-count")}})
				}
			}
			for vi, v := range variants {
				for _, lg := range logs(L) {
					steps := append(append([]Step{}, v...), lg.WithTags(fmt.Sprintf("variant-%d", vi)))
					cs = append(cs, Case{Base: base, BaseName: fmt.Sprintf("chain%d", L), BaseSeed: seed, Steps: steps})
				}
			}
			// forks: reset to an earlier commit, then new commits
			if L <= 6 {
				for j := 1; j < L; j++ {
					for extra := 1; extra <= 2; extra++ {
						pre := []Step{Run("reset", "--soft", fmt.Sprintf("HEAD@{%d}", j))}
						for x := 0; x < extra; x++ {
							pre = append(pre, Write("a", fmt.Sprintf("fork %d %d %d\n", L, j, x)), Run("add", "a"), Run("commit", "-m", fmt.Sprintf("fork%d", x)))
						}
						for _, lg := range logs(L - j + extra) {
							cs = append(cs, Case{Base: base, BaseName: fmt.Sprintf("chain%d", L), BaseSeed: seed, Steps: append(append([]Step{}, pre...), lg.WithTags("fork"))})
						}
					}
				}
			}
		}
		// one long chain: three-digit positions and counts
		{
			long := seedChain(101)
			for _, k := range []string{"99", "100", "101", "102", "1000"} {
				cs = append(cs, Case{Base: NewState(), BaseName: "empty", BaseSeed: nil, Steps: append(append([]Step{}, long...), Run("log", "-n", k).WithTags("chain101"))})
			}
		}
		cases = x.RunCases(cs)
	}, func(x *Explorer, cov map[string]interface{}) {
		cov["states"] = cases
		cov["distinct_nontrivial"] = cases
		cov["max_chain_length"] = Lmax
		cov["rule"] = "every (chain length 1..Lmax, variant, k) and every fork (reset to position j + 1-2 commits) is one case: the real log command is executed and its commit lines compared with an independent parent walk; distinct_nontrivial = cases executed"
	})
	return res
}
