package main

import "strings"

// Name sweeps: shallow scenarios over EVERY realizable subset (size <= k) of a pool of sharp
// names. They complement the BFS checks, whose alphabets must stay small to go deep.

var sharpNames = []string{
	"d", "d-x", "d.c", "d0", "d x", "ad", "D", "a+b", "a(b", "a_b", "é",
	"d/x", "d/y", "d/s/z", "d/s/t/u", "ad/x", "d x/f g", "d-x/x", "d_old", "dd/x", "p%sq/x",
	longPath,
}

// longPath is 300 bytes long (each component well below 255): lengths above 255 need the full u16 of the index.
var longPath = strings.Repeat("L", 100) + "/" + strings.Repeat("M", 100) + "/" + strings.Repeat("N", 98)

// dirPrefixes returns the proper directory prefixes of the paths of a set.
func dirPrefixes(set []string) []string {
	seen := map[string]bool{}
	var out []string
	for _, p := range set {
		for i := 0; i < len(p); i++ {
			if p[i] == '/' && !seen[p[:i]] {
				seen[p[:i]] = true
				out = append(out, p[:i])
			}
		}
	}
	return out
}

// sweepBase: write every path of the set, stage the top-level names, commit.
func sweepBase(set []string) []Step {
	var steps []Step
	for _, p := range set {
		steps = append(steps, Write(p, v1(p)))
	}
	steps = append(steps, Run(append([]string{"add"}, topLevel(set)...)...), Run("commit", "-m", "sweep base"))
	return steps
}
