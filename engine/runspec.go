package main

import (
	"fmt"
	"path/filepath"
	"regexp"
	"sort"
	"strings"
	"sync"
	"time"
)

// Common seed traces (all start from the empty state).
var identitySteps = []Step{
	Run("config", "user.name", "Test User"),
	Run("config", "user.email", "test@example.com"),
}

func seedS0() []Step { return append([]Step{Run("init")}, identitySteps...) }
func seedS1() []Step {
	return append(seedS0(), Write("a", "a v1\n"), Write("d/x", "d/x v1\n"), Run("add", "a", "d"), Run("commit", "-m", "c1"))
}
func seedS2() []Step {
	return append(seedS1(), Run("branch", "b"), Write("a", "a v2\n"), Run("add", "a"), Run("commit", "-m", "c2"))
}
func seedS3() []Step { return append(seedS2(), Run("branch", "-r", "trunk")) }
func seedS4() []Step { return append(seedS1(), Run("rm", "a", "d/x"), Run("commit", "-m", "empty")) }
func seedS5() []Step {
	return append(seedS1(), Write("a", "a dirty\n"), Rmdir("d"), Write("u", "untracked\n"), Write("e/q", "untracked nested\n"))
}

func allSeeds() []Seed {
	return []Seed{{"S0", seedS0()}, {"S1", seedS1()}, {"S2", seedS2()}, {"S3", seedS3()}, {"S4", seedS4()}, {"S5", seedS5()}}
}

var hexRe = regexp.MustCompile(`[0-9a-f]{40}`)
var hex7Re = regexp.MustCompile(`\b[0-9a-f]{7}\b`)
var secsRe = regexp.MustCompile(`\b1[0-9]{9}\b`)
var dateRe = regexp.MustCompile(`Date: .*`)

func maskOutput(s string) string {
	s = hexRe.ReplaceAllString(s, "<id>")
	s = hex7Re.ReplaceAllString(s, "<id7>")
	s = secsRe.ReplaceAllString(s, "<secs>")
	s = dateRe.ReplaceAllString(s, "Date: <date>")
	return s
}

// selfTest: (1) determinism — a fixed trace run twice must give identical state keys
// and outputs; (2) transparency — the same trace on the plain binary must agree with
// the seam binary on exit status, masked output, worktree bytes, index paths, branch
// names and HEAD. Any mismatch is a harness error, never a VIOLATION.
func selfTest(e *RunEnv, needPlain bool) int {
	trace := append(seedS1(),
		Run("status"), Write("a", "a v2\n"), Run("add", "a"), Run("status"), Run("commit", "-m", "c2"),
		Run("branch", "b"), Run("switch", "b"), Run("log"), Run("reflog"), Run("ls-files", "-s"),
		Run("reset", "--soft", "HEAD@{1}"), Run("rm", "a"), Run("restore", "--staged", "a"), Run("restore", "a"),
		Run("branch", "--list"), Run("rev-parse", "HEAD"), Run("nope"), Run("add", "nope"))
	sb := NewSandbox(filepath.Join(e.B.Scratch, "selftest"))
	s1, r1, err := ExecTrace(sb, e.B.GoitV, nil, trace)
	if err != nil {
		harnessFatal("selftest: %v", err)
	}
	s2, r2, err := ExecTrace(sb, e.B.GoitV, nil, trace)
	if err != nil {
		harnessFatal("selftest: %v", err)
	}
	for i := range trace {
		if s1[i].Key() != s2[i].Key() {
			harnessFatal("nondeterminism: state after step %d (%s) differs between two identical runs", i, trace[i])
		}
		if r1[i] != nil && (r1[i].Exit != r2[i].Exit || r1[i].Stdout != r2[i].Stdout || cutPanic(r1[i].Stderr) != cutPanic(r2[i].Stderr)) {
			harnessFatal("nondeterminism: output of step %d (%s) differs between two identical runs", i, trace[i])
		}
	}
	n := 0
	if needPlain {
		s3, r3, err := ExecTrace(sb, e.B.Goit, nil, trace)
		if err != nil {
			harnessFatal("selftest: %v", err)
		}
		for i := range trace {
			if r1[i] == nil {
				continue
			}
			n++
			if r1[i].Exit != r3[i].Exit || maskOutput(r1[i].Stdout) != maskOutput(r3[i].Stdout) || maskOutput(cutPanic(r1[i].Stderr)) != maskOutput(cutPanic(r3[i].Stderr)) {
				harnessFatal("seam build differs from plain build at step %d (%s): exit %d vs %d\n--- seam\n%s%s\n--- plain\n%s%s", i, trace[i], r1[i].Exit, r3[i].Exit, r1[i].Stdout, r1[i].Stderr, r3[i].Stdout, r3[i].Stderr)
			}
			a, b := s1[i].Abs(), s3[i].Abs()
			if fmt.Sprint(sortedW(a.W)) != fmt.Sprint(sortedW(b.W)) || fmt.Sprint(indexPaths(a)) != fmt.Sprint(indexPaths(b)) ||
				fmt.Sprint(keys(a.Branches)) != fmt.Sprint(keys(b.Branches)) || a.HeadRaw != b.HeadRaw || len(a.Objects) != len(b.Objects) {
				harnessFatal("seam build differs from plain build in the state after step %d (%s)", i, trace[i])
			}
		}
	}
	return n
}

// cutPanic drops the goroutine dump of a Go panic (it holds addresses that differ from run to run).
func cutPanic(s string) string {
	if i := strings.Index(s, "panic:"); i >= 0 {
		if j := strings.Index(s[i:], "\n"); j >= 0 {
			return s[:i+j]
		}
	}
	return s
}

func sortedW(w map[string][]byte) []string {
	var out []string
	for p, d := range w {
		out = append(out, p+"="+string(d))
	}
	sort.Strings(out)
	return out
}

func indexPaths(a *Abs) []string {
	var out []string
	for _, e := range a.Index {
		out = append(out, e.Path)
	}
	return out
}

// runSpec builds the binaries, self-tests, explores and packages the result.
func runSpec(e *RunEnv, spec *Spec, extraCov func(x *Explorer, cov map[string]interface{})) *CheckResult {
	return runSpecWith(e, spec, nil, extraCov)
}

// runSpecWith additionally runs `before` (input enumerations that share the explorer)
// ahead of the BFS.
func runSpecWith(e *RunEnv, spec *Spec, before func(x *Explorer), extraCov func(x *Explorer, cov map[string]interface{})) *CheckResult {
	if err := e.B.BuildCLI(true, true); err != nil {
		harnessFatal("%v", err)
	}
	conf := selfTest(e, true)
	res := &CheckResult{Level: "model_checking"}
	res.Rejudge = func(v *Violation) []Violation { return rejudge(e, spec, v) }
	if replayOnly() {
		return res
	}
	x := NewExplorer(spec, e.B.GoitV, filepath.Join(e.B.Scratch, "x"), e.Workers*2, e.Deadline)
	x.Exhaustive = true
	if before != nil {
		before(x)
	}
	x.Run()
	res.Violations = x.Violations
	samples := x.Samples
	if len(samples) == 0 {
		for i, n := range x.AllNodes {
			if i > 3 {
				break
			}
			samples = append(samples, fmt.Sprintf("[%s] %s", n.Seed, traceString(n.Trace())))
		}
	}
	applied, refused, panics := 0, 0, 0
	for k, n := range x.Outcomes {
		switch {
		case strings.HasSuffix(k, ":applied"):
			applied += n
		case strings.HasSuffix(k, ":refused"):
			refused += n
		default:
			panics += n
		}
	}
	cov := map[string]interface{}{
		"states":                        x.States,
		"transitions":                   int(x.Transitions),
		"traces_validated_against_impl": int(x.Transitions) + conf,
		"shim_conformance_transitions":  conf,
		"probes":                        int(x.Probes),
		"evaluations":                   int(x.Transitions) + int(x.Probes),
		"distinct_nontrivial":           x.States,
		"rule":                          "level-synchronous BFS over real executions of the binary built from the working tree; a case is one (state, step) pair; distinct_nontrivial counts distinct reached disk states (SHA-256 of the complete snapshot)",
		"samples":                       samples,
		"exhaustive":                    x.Exhaustive,
		"completed_depth":               x.Completed,
		"depth_bound":                   spec.Depth,
		"self_loops":                    int(x.SelfLoops),
		"pruned_behind_findings":        int(x.Pruned),
		"outcomes":                      x.Outcomes,
		"applied":                       applied,
		"refused":                       refused,
		"crashed":                       panics,
		"seeds":                         len(x.SeedNodes),
	}
	if extraCov != nil {
		extraCov(x, cov)
	}
	res.Coverage = cov
	res.Assumptions = []string{
		"gitfmt (independent decoders) and the per-property oracle code are trusted",
		"clock fixed through the import-swap seam (VERIF_NOW); seam build checked against the plain build on a fixed trace",
		"one process at a time; kernel survives; no concurrent goit processes",
	}
	return res
}

// rejudge re-executes the full trace of v from the empty state and applies the
// spec's oracles to the last step.
func rejudge(e *RunEnv, spec *Spec, v *Violation) []Violation {
	followSeen, c18After = sync.Map{}, sync.Map{} // a replay judges every follow-up again
	x := NewExplorer(spec, e.B.GoitV, filepath.Join(e.B.Scratch, fmt.Sprintf("rj%d", time.Now().UnixNano())), 1, time.Now().Add(5*time.Minute))
	c := x.ctxs[0]
	cur := &Node{State: NewState()}
	var out []Violation
	for i, st := range v.Trace {
		last := i == len(v.Trace)-1
		var post *State
		if st.Op == "run" {
			r, p, err := c.SB.Exec(cur.State, x.Bin, append(append([]string{}, spec.Env...), st.Env...), st.Args...)
			if err != nil {
				harnessFatal("rejudge exec: %v", err)
			}
			post = p
			// violations found by probes carry the probe as their last step, so the two
			// last commands are judged
			if (last || i >= len(v.Trace)-2) && spec.CheckTrans != nil {
				vs, _ := spec.CheckTrans(c, cur, st, r, post)
				out = append(out, vs...)
			}
			if last && v.Oracle == "seed-command-succeeds" && r.Exit != 0 {
				out = append(out, Violation{Oracle: "seed-command-succeeds", Command: st.Cmd(), Detail: "an ordinary command of a seed scenario failed: " + st.String() + outputTail(r)})
			}
			if last && r.TimedOut {
				out = append(out, Violation{Oracle: "terminates", Command: st.Cmd()})
			}
		} else {
			post = ApplyEnv(cur.State, st)
		}
		cur = &Node{State: post, Parent: cur, Via: st, Depth: i + 1}
		if spec.CheckState != nil && i == len(v.Trace)-2 {
			out = append(out, spec.CheckState(c, cur)...)
		}
	}
	if spec.CheckState != nil {
		out = append(out, spec.CheckState(c, cur)...)
	}
	return out
}
