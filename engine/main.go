package main

import (
	"encoding/json"
	"fmt"
	"os"
	"path/filepath"
	"runtime"
	"sort"
	"strconv"
	"strings"
	"sync/atomic"
	"time"
)

func harnessFatal(f string, args ...interface{}) {
	fmt.Printf("HARNESS-ERROR: "+f+"\n", args...)
	cleanupScratch()
	os.Exit(2)
}

type RunEnv struct {
	Prop     string
	Tier     string
	Seed     int
	B        *Build
	Start    time.Time
	Deadline time.Time
	Workers  int
}

func (e *RunEnv) Thorough() bool { return e.Tier == "thorough" }

// pick returns q in the quick tier and t in the thorough tier.
func (e *RunEnv) pick(q, t int) int {
	if e.Thorough() {
		return t
	}
	return q
}

// depth is pick plus VERIF_DEPTH_PLUS (exploratory runs beyond the registered tiers; never set by the
// registered commands).
func (e *RunEnv) depth(q, t int) int {
	d := e.pick(q, t)
	if n, err := strconv.Atoi(os.Getenv("VERIF_DEPTH_PLUS")); err == nil {
		d += n
	}
	return d
}

type CheckResult struct {
	Level       string
	Violations  []Violation
	Coverage    map[string]interface{}
	Assumptions []string
	// Rejudge re-executes a trace and returns the violations it produces (for
	// confirmation and for `vcheck replay`).
	Rejudge func(v *Violation) []Violation
}

type checkFn func(e *RunEnv) *CheckResult

var registry = map[string]checkFn{}

func writeEvidence(e *RunEnv, res *CheckResult, nviol int) {
	ev := map[string]interface{}{
		"property_id": e.Prop,
		"tier":        e.Tier,
		"seed":        e.Seed,
		"level":       res.Level,
		"coverage":    res.Coverage,
		"assumptions": res.Assumptions,
		"wall_s":      time.Since(e.Start).Seconds(),
		"violations":  nviol,
	}
	dir := filepath.Join(verifDir(), "evidence")
	os.MkdirAll(dir, 0o755)
	js, _ := json.MarshalIndent(ev, "", " ")
	if err := os.WriteFile(filepath.Join(dir, e.Prop+".json"), append(js, '\n'), 0o644); err != nil {
		harnessFatal("write evidence: %v", err)
	}
}

func repoDir() string {
	if d := os.Getenv("VERIF_REPO"); d != "" {
		return d
	}
	return "/repo"
}

func usage() {
	fmt.Println("usage: vcheck <C01..C20> [--tier quick|thorough]\n       vcheck replay <file.json>\n       vcheck warm")
	os.Exit(2)
}

func main() {
	if len(os.Args) < 2 {
		usage()
	}
	defer cleanupScratch()
	switch os.Args[1] {
	case "warm":
		b, err := NewBuild(repoDir())
		if err != nil {
			harnessFatal("%v", err)
		}
		if err := b.BuildCLI(true, true); err != nil {
			harnessFatal("%v", err)
		}
		for _, h := range harnessNames() {
			if _, err := b.BuildHarness(h); err != nil {
				harnessFatal("%v", err)
			}
		}
		fmt.Println("warm: ok")
		return
	case "replay":
		if len(os.Args) < 3 {
			usage()
		}
		os.Exit(replayFile(os.Args[2]))
	}
	prop := os.Args[1]
	fn, ok := registry[prop]
	if !ok {
		fmt.Printf("unknown property %q\n", prop)
		os.Exit(2)
	}
	tier := os.Getenv("VERIF_TIER")
	for i := 2; i < len(os.Args); i++ {
		if os.Args[i] == "--tier" && i+1 < len(os.Args) {
			tier = os.Args[i+1]
			i++
		}
	}
	if tier != "thorough" {
		tier = "quick"
	}
	seed, _ := strconv.Atoi(os.Getenv("VERIF_SEED"))
	e := &RunEnv{Prop: prop, Tier: tier, Seed: seed, Start: time.Now(), Workers: runtime.NumCPU()}
	if e.Workers < 4 {
		e.Workers = 4
	}
	budget := 150 * time.Second
	if tier == "thorough" {
		budget = 40 * time.Minute
	}
	if s := os.Getenv("VERIF_BUDGET_S"); s != "" {
		if n, err := strconv.Atoi(s); err == nil {
			budget = time.Duration(n) * time.Second
		}
	}
	e.Deadline = e.Start.Add(budget)
	b, err := NewBuild(repoDir())
	if err != nil {
		harnessFatal("%v", err)
	}
	e.B = b
	res := fn(e)
	var confirm func(v *Violation) (bool, string)
	if res.Rejudge != nil {
		confirm = func(v *Violation) (bool, string) {
			n := 3
			if e.Thorough() {
				n = 5
			}
			for i := 0; i < n; i++ {
				if time.Until(e.Deadline) < budget/2 {
					e.Deadline = time.Now().Add(budget) // confirmation replays get their own budget
				}
				got := res.Rejudge(v)
				found := false
				for _, g := range got {
					if g.Oracle == v.Oracle && g.Command == v.Command {
						found = true
					}
				}
				if !found {
					var have []string
					for _, g := range got {
						have = append(have, g.Oracle+"/"+g.Command)
					}
					return false, fmt.Sprintf("replay %d of %d produced %d violations %v, none with oracle %s/%s", i+1, n, len(got), have, v.Oracle, v.Command)
				}
			}
			return true, ""
		}
	}
	os.RemoveAll(filepath.Join(verifDir(), "replays", prop)) // artefacts of earlier runs
	exit, vd := Judge(prop, res.Violations, confirm)
	if res.Coverage == nil {
		res.Coverage = map[string]interface{}{}
	}
	known := map[string]int{}
	for k, n := range vd.KnownSeen {
		known[k] = n
	}
	mv := map[string]int64{}
	modelVerdicts.Range(func(k, v interface{}) bool { mv[k.(string)] = atomic.LoadInt64(v.(*int64)); return true })
	if len(mv) > 0 {
		res.Coverage["reference_model_verdicts"] = mv
	}
	res.Coverage["known_findings_observed"] = known
	res.Coverage["violation_instances"] = len(res.Violations)
	res.Coverage["unexplained_groups"] = len(vd.Unexplained)
	writeEvidence(e, res, len(vd.Unexplained))
	cleanupScratch()
	if exit == 0 {
		fmt.Printf("OK property=%s tier=%s wall=%.1fs %s\n", prop, tier, time.Since(e.Start).Seconds(), covSummary(res.Coverage))
	}
	os.Exit(exit)
}

func covSummary(c map[string]interface{}) string {
	var parts []string
	for _, k := range []string{"states", "transitions", "evaluations", "distinct_nontrivial", "exhaustive", "completed_depth"} {
		if v, ok := c[k]; ok {
			parts = append(parts, fmt.Sprintf("%s=%v", k, v))
		}
	}
	return strings.Join(parts, " ")
}

func replayFile(path string) int {
	data, err := os.ReadFile(path)
	if err != nil {
		fmt.Println(err)
		return 2
	}
	var v Violation
	if err := json.Unmarshal(data, &v); err != nil {
		fmt.Println(err)
		return 2
	}
	fn, ok := registry[v.Property]
	if !ok {
		fmt.Println("unknown property in artefact")
		return 2
	}
	os.Setenv("VERIF_REPLAY_ONLY", "1")
	e := &RunEnv{Prop: v.Property, Tier: "quick", Start: time.Now(), Workers: 2, Deadline: time.Now().Add(10 * time.Minute)}
	b, err := NewBuild(repoDir())
	if err != nil {
		harnessFatal("%v", err)
	}
	e.B = b
	res := fn(e)
	if res.Rejudge == nil {
		fmt.Println("this check has no replay support")
		return 2
	}
	got := res.Rejudge(&v)
	for _, g := range got {
		if g.Oracle == v.Oracle {
			fmt.Printf("REPRODUCED property=%s oracle=%s\n  %s\n", v.Property, g.Oracle, g.Detail)
			return 1
		}
	}
	fmt.Printf("NOT-REPRODUCED property=%s oracle=%s (%d other violations)\n", v.Property, v.Oracle, len(got))
	return 0
}

func replayOnly() bool { return os.Getenv("VERIF_REPLAY_ONLY") == "1" }

func sortedKeys(m map[string]int) []string {
	out := make([]string, 0, len(m))
	for k := range m {
		out = append(out, k)
	}
	sort.Strings(out)
	return out
}

func itoa(n int) string { return strconv.Itoa(n) }
