#!/usr/bin/env python3
"""seeded/RESULTS.raw (one line per (change, check, tier) run) -> seeded/RESULTS.tsv (one line per change)."""
import collections
V="/verif"
runs=collections.OrderedDict()
for l in open(f"{V}/seeded/RESULTS.raw", errors="replace"):
    f=l.rstrip("\n").split("\t")
    if len(f)<5: continue
    sid,chk,tier,rc,nv=f[:5]
    first=f[5] if len(f)>5 else ""
    runs.setdefault(sid,[]).append((chk,tier,rc,nv,first))
out=[]
for sid,rs in runs.items():
    caught=[f"{c} ({t})" for c,t,rc,nv,_ in rs if rc=="rc=1"]
    other=[f"{c} ({t}): {rc}" for c,t,rc,nv,_ in rs if rc!="rc=1"]
    oracle=""
    for c,t,rc,nv,first in rs:
        if rc=="rc=1" and "oracle=" in first:
            oracle=first.split("oracle=")[1].split(" ")[0]; break
    if any(rc=="dormant" for _,_,rc,_,_ in rs) and not caught:
        out.append(f"{sid}\tdormant: no longer manifests on the repaired tree (its own demonstration passes)\t")
    elif caught:
        out.append(f"{sid}\tcaught by {', '.join(dict.fromkeys(caught))}\toracle {oracle}")
    else:
        out.append(f"{sid}\tNOT caught ({'; '.join(other)})\t")
open(f"{V}/seeded/RESULTS.tsv","w").write("\n".join(out)+"\n")
print("\n".join(out))
