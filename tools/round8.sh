#!/bin/sh
# usage: tools/round8.sh Cxx  — import /tmp/mut8/Cxx/_out as seeded/Cxx-r8m1, confirm the demonstration passes on the unchanged tree, then tools/run_seeded.sh
p=$1
MUTDIR=/tmp/mut8 PFX=r8 /verif/tools/import_seeded.sh $p
id=$p-r8m1
[ -d /verif/seeded/$id ] || { echo "$id: nothing delivered"; exit 2; }
export GOMODCACHE=/root/go/pkg/mod GOCACHE=/root/.cache/go-build GOPATH=/root/go HOME=/dev/shm/r8home-$p; mkdir -p $HOME
if sh /verif/seeded/$id/demo.sh /dev/shm/goit-base >/dev/null 2>&1; then echo "$id: demonstration passes on the unchanged tree"; else echo "$id: demonstration FAILS on the unchanged tree (rejected)"; exit 3; fi
/verif/tools/run_seeded.sh $id quick
