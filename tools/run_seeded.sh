#!/bin/sh
# usage: tools/run_seeded.sh <seeded-id> [tier] [check ids...]
# Applies /verif/seeded/<id>/patch.diff to a scratch worktree of /repo's HEAD (never to /repo itself),
# confirms build + the repository's own tests + the demonstration, then runs the named checks
# (default: the property the change targets, then all others) with VERIF_REPO pointing at the copy.
# Appends one line per check to /verif/seeded/RESULTS.raw.
id=$1; tier=${2:-quick}; shift; shift 2>/dev/null
V=/verif; S=$V/seeded/$id
export GOFLAGS=-mod=mod GOPROXY=off GOSUMDB=off GOTOOLCHAIN=local
tmp=$(mktemp -d /dev/shm/seed-XXXXXX)
trap 'git -C /repo worktree remove --force $tmp/wt >/dev/null 2>&1; rm -rf $tmp' EXIT
git -C /repo worktree add -q --detach $tmp/wt ${SEED_BASE:-HEAD} || exit 2
if ! git -C $tmp/wt apply $S/patch.diff 2>/dev/null; then
  # the patch was written against an earlier commit: try a three-way merge onto the current tree
  if git -C $tmp/wt apply -3 $S/patch.diff >/dev/null 2>&1 && ! grep -rqs '^<<<<<<< ' $tmp/wt --include=*.go; then echo "$id: applied by three-way merge"; git -C $tmp/wt reset -q; else echo "$id: patch does not apply"; exit 2; fi
fi
( cd $tmp/wt && go build ./... ) || { echo "$id: does not compile"; exit 2; }
t=$( cd $tmp/wt && go test -vet=off -count=1 ./... 2>&1 ); if echo "$t" | grep -q "^FAIL\|^---"; then echo "$id: repository tests FAIL with the change"; echo "$t" | tail -5; exit 2; fi
echo "$id: compiles, repository tests pass"
( cd $tmp/wt && go build -o $tmp/goit . )
demo=$(ls $S/demo* 2>/dev/null | head -1)
case "$demo" in
  *.sh) if sh $demo $tmp/goit >/dev/null 2>&1; then echo "$id: demonstration PASSES with the change (unexpected)"; echo "$id	-	$tier	dormant	0 violations	the demonstration passes with the change applied to the current tree" >> $V/seeded/RESULTS.raw; else echo "$id: demonstration fails with the change (as intended)"; fi;;
  *_test.go) echo "$id: go-test demonstration (see meta.json)";;
esac
prop=$(python3 -c "import json;print(json.load(open('$S/meta.json'))['property'])")
checks="$@"; [ -z "$checks" ] && checks="$prop"
mkdir -p $tmp/vd
for c in $checks; do
  out=$(VERIF_REPO=$tmp/wt VERIF_DIR=$tmp/vd ${VCHECK:-$V/bin/vcheck} $c --tier $tier 2>&1); rc=$?
  first=$(echo "$out" | grep -A2 '^VIOLATION' | sed -n 2,3p | tr '\n' ' ' | cut -c1-260)
  echo "$id	$c	$tier	rc=$rc	$(echo "$out" | grep -c '^VIOLATION') violations	$first" | tee -a $V/seeded/RESULTS.raw
done
