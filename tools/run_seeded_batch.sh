#!/bin/sh
# usage: tools/run_seeded_batch.sh <grep pattern> [tier]   — runs run_seeded.sh for every matching seeded id
cd /verif
# the batch uses one copy of the checker and one base commit throughout, whatever happens to /verif/bin or /repo meanwhile
VCHECK=$(mktemp /dev/shm/vcheck-batch-XXXXXX); cp bin/vcheck $VCHECK; chmod +x $VCHECK; export VCHECK
SEED_BASE=$(git -C /repo rev-parse HEAD); export SEED_BASE
trap 'rm -f $VCHECK' EXIT
for s in $(ls seeded | grep -- "$1"); do [ -d seeded/$s ] && tools/run_seeded.sh $s ${2:-quick} 2>&1 | cut -c1-400; done
