#!/bin/sh
# usage: tools/run_seeded_batch.sh <grep pattern> [tier]   — runs run_seeded.sh for every matching seeded id
cd /verif
for s in $(ls seeded | grep -- "$1"); do [ -d seeded/$s ] && tools/run_seeded.sh $s ${2:-quick} 2>&1 | cut -c1-400; done
