#!/bin/sh
# runs every claimed check (quick tier unless TIER=thorough) from the directory it is started in
# (so that it also works inside a `vp run` snapshot) and prints one line each
D=${VERIF_DIR:-$PWD}
export VERIF_DIR=$D
export GOFLAGS=-mod=mod GOPROXY=off GOSUMDB=off GOTOOLCHAIN=local
if [ ! -x $D/bin/vcheck ] || [ -n "$REBUILD" ]; then (cd $D/engine && go build -o $D/bin/vcheck .) || exit 2; fi
for id in ${CHECKS:-$(python3 -c "import json;print(' '.join(c['property_id'] for c in json.load(open('$D/MANIFEST.json'))['checks']))")}; do
  out=$($D/bin/vcheck $id --tier ${TIER:-quick} 2>&1); rc=$?
  echo "$id rc=$rc $(echo "$out" | grep -c '^VIOLATION') violations; $(echo "$out" | grep -c '^KNOWN-FINDING') known; $(echo "$out" | tail -1 | cut -c1-200)"
  if [ $rc -ne 0 ]; then echo "$out" | grep -A3 '^VIOLATION\|^HARNESS' | cut -c1-600 | head -40; fi
done
