#!/bin/sh
# runs every claimed check (quick tier unless TIER=thorough) and prints one line each
cd /verif
for id in $(python3 -c "import json;print(' '.join(c['property_id'] for c in json.load(open('MANIFEST.json'))['checks']))"); do
  out=$(bin/vcheck $id --tier ${TIER:-quick} 2>&1); rc=$?
  echo "$id rc=$rc $(echo "$out" | grep -c '^VIOLATION') violations; $(echo "$out" | grep -c '^KNOWN-FINDING') known; $(echo "$out" | tail -1 | cut -c1-160)"
done
