#!/usr/bin/env python3
"""Regenerates /verif/MANIFEST.json from the table below (keeps it valid at all times)."""
import json, os
V = "/verif"
GOENV = "GOFLAGS=-mod=mod GOPROXY=off GOSUMDB=off GOTOOLCHAIN=local"
props = [json.loads(l) for l in open(f"{V}/properties.jsonl")]
# id -> (category, technique, text, note, design_ref)
claimed = {}
exec(open(f"{V}/tools/claims.py").read())
checks, na = [], []
for p in props:
    i = p["id"]
    if i in claimed:
        c = claimed[i]
        checks.append({
            "property_id": i,
            "quick_cmd": f"bin/vcheck {i} --tier quick",
            "thorough_cmd": f"bin/vcheck {i} --tier thorough",
            "evidence_file": f"{V}/evidence/{i}.json",
            "replay_cmd_template": "bin/vcheck replay {path}",
            "engine": "vcheck",
            "level_claimed": {"category": c["category"], "text": c["text"], "design_ref": c.get("ref", "DESIGN.md §3 " + i)},
            "level_note": c["note"],
            "technique": c["technique"],
        })
    else:
        na.append({"property_id": i, "reason": "check not built yet in this session; DESIGN.md §3 describes the planned bounded exhaustive exploration"})
m = {
    "version": 1,
    "setup_cmd": f"cd {V}/engine && {GOENV} go build -o {V}/bin/vcheck . && cd {V} && {GOENV} bin/vcheck warm",
    "hooks": {
        "guard": "verif",
        "enable": "no hook is committed to /repo: at check time the working tree is copied to a scratch directory and every non-test file's imports of os / time / io/ioutil / path/filepath are swapped for seam packages (engine/shim) placed under internal/zzverif; the seam binary is checked against the plain build on a fixed trace",
        "baseline_off_cmd": f"cd /repo && {GOENV} go test -vet=off -count=1 ./...",
        "source_commits": [],
        "add_only": True,
    },
    "engines": [{"name": "vcheck", "path": f"{V}/engine", "serves_properties": sorted(claimed), "kind_free_text": "hand-written explicit-state explorer (level-synchronous BFS over real executions of the goit binary in sandboxes, SHA-256 state keys), crash/fault-point enumerator through an import-swap file-system seam, in-module exhaustive input enumerators, independent Git-format decoders as oracle"}],
    "checks": checks,
    "not_applicable": na,
    "notes": "Exit codes: 0 held (KNOWN-FINDING lines possible), 1 VIOLATION, 2 harness error. VERIF_REPO overrides /repo for self-tests.",
}
json.dump(m, open(f"{V}/MANIFEST.json", "w"), indent=1)
print("claimed", sorted(claimed), "n/a", [x["property_id"] for x in na])
