claimed["C03"] = dict(
    category="model_checking",
    technique="explicit-state BFS over real command executions (all mutating commands x hostile argument alphabet, 6 seed states, depth 3/4), invariant = independent fsck + object-store monotonicity on every transition",
    text="Every state reachable within the depth bound from six seed repositories by any command of the alphabet (including update-ref with blob/tree/unknown/malformed ids, branch names with '/', '..', path escapes, reset to every reflog position) satisfies the connectivity invariant, judged by an independent decoder; every pre-existing object still decodes to the same content after every command. Exhaustive within the bound; nothing sampled.",
    note="Trusted: engine/gitfmt.go (independent zlib/SHA-1/tree/commit/index readers); the seam only fixes the clock. Bound: depth and alphabet reported in the evidence.",
)
