claimed["C03"] = dict(
    category="model_checking",
    technique="explicit-state BFS over real command executions (all mutating commands x hostile argument alphabet, 6 seed states, depth 3/4), invariant = independent fsck + object-store monotonicity on every transition",
    text="Every state reachable within the depth bound from six seed repositories by any command of the alphabet (including update-ref with blob/tree/unknown/malformed ids, branch names with '/', '..', path escapes, reset to every reflog position) satisfies the connectivity invariant, judged by an independent decoder; every pre-existing object still decodes to the same content after every command. Exhaustive within the bound; nothing sampled.",
    note="Trusted: engine/gitfmt.go (independent zlib/SHA-1/tree/commit/index readers); the seam only fixes the clock. Bound: depth and alphabet reported in the evidence.",
)
claimed["C04"] = dict(
    category="model_checking",
    technique="explicit-state BFS over (index, worktree) states x every add/rm argument list of length 1-2 (files, directories, deleted-but-tracked, unknown, repeated), each transition compared with a map reference model; plus a name sweep: every realizable subset (size <= 2/3) of a 22-name pool of sharp names (siblings around '/', names extending a directory name, spaces, '%', regexp metacharacters, non-ASCII, a 300-byte path, an empty file) x every path and directory prefix as rm / add argument; file<->directory type changes and un-normalised spellings in the alphabet; type changes inside a named directory, same-length 64 KiB edits, a leftover blob temp file, two-directory argument pairs",
    text="For every state reachable within the depth bound and every argument list of the alphabet, the post-state's index (decoded independently) and worktree bytes equal what the reference model allows: named files staged with the blob id of their bytes and the blob stored, tracked-but-missing paths unstaged, rm removing exactly tracked paths beneath the argument, untracked files untouched, unknown arguments refused atomically, re-adding unchanged files a no-op.",
    note="Trusted: gitfmt decoders and engine/model.go (relation; exit status left open where the statement is silent, e.g. overlapping arguments). Invocation from the repository root only.",
)
claimed["C02"] = dict(
    category="model_checking",
    technique="exhaustive name-set sweep (all realizable subsets up to size k of an 18-path universe ordered around '/') plus explicit-state BFS over edit/add/rm/restore/reset/branch/switch histories; every applied commit judged against independently decoded objects; every sweep case takes a second snapshot after one removal and one edit; one directory of 900 files (tree > 32 KiB), names of 250/255 bytes, identical sub-directories",
    text="For every enumerated name set and every history within the depth bound, each successful commit advanced exactly the current branch to a commit whose flattened snapshot equals the staged entries at that moment, whose only parent is the previous tip, with the configured identity and the given message; HEAD, other branches, the staging area and the working tree were unchanged; a commit of a staged difference always succeeded.",
    note="Trusted: gitfmt. Fixed clock means two identical commits coincide; the oracle accepts a pre-existing identical commit object. Tree ids are not predicted (Goit spells the directory mode 040000); snapshots are compared after flattening.",
)
claimed["C07"] = dict(
    category="model_checking",
    technique="explicit-state BFS over (HEAD snapshot, staging area) pairs with sharp sibling names (test/, test.c, test-data, test0); status probed in every state with a commit and compared with the exact set difference; every commit transition judged for refuse-iff-equal; plus a name sweep over every realizable subset (size <= 3/4) of the 22-name pool with status probed after every command; one case with a 900-file directory",
    text="In every state reachable within the depth bound, the parsed 'Changes to be committed' section equals {new: I\\T, deleted: T\\I, modified: differing ids} computed from independently decoded index and HEAD tree (absent when equal); a commit with I = T is refused and creates no object and moves no branch; a commit with I != T succeeds.",
    note="Trusted: gitfmt, the status section parser (structure only: section header and the 13-column kind field). Unborn repositories have no HEAD snapshot and are not probed here (C18/C13 own them).",
)
claimed["C05"] = dict(
    category="model_checking",
    technique="exhaustive name-set sweep (all realizable path sets up to size k over a 21-path universe with spaces, '-', '.', '+', '(', non-ASCII, depth 4), blob and sub-tree ids with 0x00/0x20/0x0a at each of the 20 positions, empty snapshot, plus a history BFS; after every commit Goit's read-back (reset --mixed + ls-files -s, cat-file -p of every tree) is compared with an independent tree decoder; in-module harness h05: trees whose entry ids carry every byte value at every one of the 20 positions and names over the component alphabet, decoded by NewTree; directories of 150 and 900 entries (tree data > 4 KiB / > 32 KiB), entry names of 250/255 bytes, identical sub-trees",
    text="For every enumerated commit, reset --mixed to it leaves a staging area equal to the independently flattened snapshot, ls-files -s prints it, and cat-file -p of the root and every sub-tree lists exactly the direct children with kind, id and complete name.",
    note="Trusted: gitfmt tree/commit/index decoders. Name sets above the size bound and names outside the universe are not covered.",
)
claimed["C09"] = dict(
    category="model_checking",
    technique="explicit-state BFS over (HEAD snapshot, staging area, working tree) triples; every restore / restore --staged invocation over files, existing and deleted directories, unknown paths and pairs is compared with a map reference model; plus a name sweep (every realizable subset of the 22-name pool x every path and directory prefix as restore / restore --staged argument), a seed where a committed directory was replaced by a staged file, objects above the zlib window size",
    text="For every reachable triple within the depth bound and every argument of the alphabet (incl. directory names that are substrings of other tracked names and a name with a regexp metacharacter), restore leaves exactly the named tracked files byte-identical to their staged blobs (present on disk or not), restore --staged leaves exactly the named entries equal to HEAD's, nothing else changes, and a path known to neither is refused with the state unchanged.",
    note="Trusted: gitfmt and engine/model.go. Exit status of a no-op restore --staged is left open, as the statement is silent.",
)
claimed["C13"] = dict(
    category="model_checking",
    technique="explicit-state BFS over worktree edits (add, same-length edit, delete, remove directory, nested create) x index states x .goitignore present/absent; status probed in every state (also after changing every file's timestamp) and compared with set expressions over independently decoded index and worktree bytes; plus a name sweep over every realizable subset (size <= 3/4) of the 22-name pool (edit, delete, untracked siblings, removed directory); an untracked case variant of a tracked name in every sweep case; ignored files followed by later siblings; 200 / 900 tracked files",
    text="In every reachable state within the depth bound, the parsed 'Changes not staged for commit' and 'Untracked files' sections equal exactly {modified: tracked with different blob id, deleted: tracked and missing, untracked: on disk, not tracked, not ignored, outside .goit}; the report is identical after every timestamp was changed; unborn repositories included.",
    note="Trusted: gitfmt, the status parser. Ignore matching is judged only where the statement is unambiguous (top-level name/ entries, *.ext); other paths are left open.",
)
claimed["C17"] = dict(
    category="model_checking",
    technique="explicit-state BFS over worktrees x four .goitignore contents x every add argument form ('.', './', parent directory, 'sub/..', the ignored path itself, .goit, .goit/HEAD, look-alike names my.goit/ goit/ a.logx), repeated after .goit has grown; reference model for add, invariant on every state, byte snapshot of .goit around reset --hard / restore; after every successful `add .` status must list nothing untracked (add and status agree on what is excluded); ignore files without a final line terminator and a nested directory entry longer than 255 bytes",
    text="In every reachable state no staged path lies inside .goit; every add leaves exactly the model's staging area (ignored and metadata paths never staged, nothing else skipped; with no ignore file every file outside .goit is staged by 'add .'); status hides exactly ignored and metadata paths; reset --hard and restore change nothing inside .goit except index, current branch and logs.",
    note="Trusted: gitfmt, engine/model.go ignore rules (unambiguous cases only).",
)
claimed["C10"] = dict(
    category="model_checking",
    technique="explicit state space of the branch/HEAD machine: BFS over branch create/delete/rename, switch, switch -c, update-ref, commit, reset with prefix-related names (a, ab, a-b, a.b, b, main); every transition compared with a map model, branch --list and rev-parse probed in every state; in-module harness h10: DFS (depth 3/4) over add/delete/rename/update/switch on ONE live Refs+Head instance with names incl. upper/lower-case pairs and a.lock, IsBranchExist for every name and the refs directory after every call; branch names of 100..255 bytes and leftover HEAD.tmp / branch.tmp / index.tmp files as input enumerations",
    text="For every reachable state within the depth bound: each operation changed exactly the branch map entry and HEAD name the model prescribes (update-ref never moves HEAD; nested or unknown refs, non-commit ids, duplicates, the current branch for -d are refused), a refused operation left the complete disk state unchanged, branch --list printed exactly the sorted stored names with the marker on HEAD's branch and rev-parse printed exactly the stored ids.",
    note="Trusted: gitfmt, engine/model.go. Nothing is explored beyond the depth bound (no random walks: different family).",
)
claimed["C11"] = dict(
    category="model_checking",
    technique="explicit-state BFS over commit (9 message shapes: ': ', tab, several lines, 3-word continuation, edge blanks, non-ASCII) / switch / switch -c / reset / branch rename / delete histories incl. a 12-entry journal; reflog probed before and after every transition (differential append-only check) and reset --soft HEAD@{n} probed for every n in every state; the whole exploration is repeated under a generated negative non-whole-hour time zone; journals of 140 (thorough: 260) entries with positions around 128 and 256; a subject whose tail is shaped like a journal line",
    text="For every reachable state: reflog exits 0 and lists one well-formed entry per position; across every transition the earlier entries reappear unchanged and in order, shifted by the number of new entries; after a successful commit/switch/reset HEAD@{0} shows the commit HEAD resolves to with the action kind; reset HEAD@{n} lands on the commit reflog shows at n for every n (positions >= 10 included); entries that record no commit are refused without change.",
    note="Trusted: the reflog output parser (id7, position, kind, message fields), gitfmt. Identity and time-zone variation of the log line is exercised by C12's TZ sweep, not here.",
)
claimed["C08"] = dict(
    category="model_checking",
    technique="explicit-state BFS over histories (commit, switch, switch -c, earlier resets, rename) and worktree perturbations; in every state every reflog position 0..len (incl. >= 10, zero-id, out of range) x {soft, mixed, hard, default, soft+hard} plus malformed arguments is executed and judged against the reflog shown before the reset and independently decoded snapshots; leading-zero spellings of positions, a removed two-level directory chain, a never-tracked directory standing where a tracked file was",
    text="For every reachable state and every position/mode: a valid reset moved exactly the current branch to the commit reflog displayed at that position, HEAD and other branches unchanged; --soft changed neither index nor files; --mixed/default made the index equal the target snapshot and changed no file; --hard additionally made every snapshot file exist with the committed bytes (missing directories recreated) and left never-tracked files untouched; malformed, out-of-range, two-mode and no-commit positions were refused with the disk state unchanged.",
    note="Trusted: gitfmt, reflog output parser. Files tracked before but absent from the target snapshot are left open under --hard (the statement does not say).",
)
claimed["C14"] = dict(
    category="model_checking",
    technique="exhaustive enumeration of chains 1..L x 5 repository variants (clean, staged change, worktree change, other branch advanced, twin branch at the tip) x 10 values of -n, and of all forks (reset to every earlier position + 1-2 new commits); each log output compared with an independent first-parent walk; counts up to 2^63-1",
    text="For every enumerated history, variant and k, the 'commit <id>' lines of log [-n k] are exactly the first min(k, length) commits of the parent chain from HEAD's branch (default 5), each once, newest first, each with its own author and message; the listing is the same in all variants.",
    note="Trusted: gitfmt commit decoder, log output parser. Histories are linear plus resets (Goit creates no merge commits).",
)
claimed["C20"] = dict(
    category="model_checking",
    technique="explicit-state BFS over local/global config writes (sections user/core, several keys, values with '=') plus an exhaustive value sweep (14 values incl. '=', '[x]', ']', '#', quotes, backslash, '%s', non-ASCII; both scopes) and all 16 (local?, global?) x (name, e-mail) combinations; every state probed with a staged file + commit; --global=false / --global=true spellings",
    text="Every config write changed exactly one (scope, section, key) of the independently parsed files and nothing else on disk; the next commit carried exactly the effective name and e-mail (local over global) unchanged; commit was refused with the disk state unchanged whenever name or e-mail was missing; malformed names (no dot, two dots, empty section or key, wrong argument count) were refused without change.",
    note="Trusted: gitfmt config parser (value = everything after the first ' = '). E-mail values are restricted to addresses Goit's commit reader accepts (C12 owns that domain).",
)
claimed["C18"] = dict(
    category="model_checking",
    technique="exhaustive enumeration of the command grammar (18 sub-commands + help/completion/bare goit; every flag subset, unknown flag, missing flag value; argument lists of length 0..2 over per-command alphabets incl. ENOTDIR paths, 300-char names, regexp metacharacters, empty strings, malformed ids and positions) on every state of a corpus (9 seed states incl. unborn, emptied, renamed, odd names + all states of a bounded BFS); the everyday commands are run on every new state a successful invocation produced and must not crash",
    text="Every enumerated command line on every corpus state ended with exit status 0 or 1, without Go panic text and within the time limit; every invocation the generator marked invalid by its arguments alone that exited non-zero left the complete disk state unchanged.",
    note="Trusted: the generator's notion of 'invalid by arguments alone' (decided before the run, never from the error text). States outside the corpus and argument lists longer than 2 are not covered; no random sequences (different family).",
)
claimed["C01"] = dict(
    category="model_checking",
    technique="in-module exhaustive input enumeration (every byte string of length 0..L over a 7-byte sharp alphabet x 3 kinds, boundary sizes up to 4 MiB x 4 fills, header-shaped payloads, all ordered pairs of short strings sharing a fan-out directory) against an independent SHA-1/zlib codec, plus CLI hash-object/add/cat-file on short strings and boundary sizes; CLI also with a leftover <id>.tmp of an interrupted earlier attempt, and cat-file -t/-p of trees with 150/900 entries and entry names of 250/255 bytes",
    text="For every enumerated payload and kind: the id equals SHA-1('<kind> <len>\\0'+bytes); the object file sits at the fan-out path and inflates independently to exactly header+bytes; GetObject returns the same kind, size, bytes and id; storing it again, or storing a neighbour in the same fan-out directory, leaves every earlier object decoding to its original content; hash-object prints the id and cat-file -p prints the bytes.",
    note="Trusted: the harness's own zlib+SHA-1 reader (stdlib only). Arbitrary multi-MiB byte strings are covered only as an enumerated family (sizes x fills), all strings only up to length L over the alphabet.",
)
claimed["C06"] = dict(
    category="model_checking",
    technique="in-module exhaustive enumeration: every realizable subset (size <= k) of a 16-path universe ordered around '/' x every insertion order, plus DFS over update/re-update/delete histories on one live Index; independent decoder of the index file and a sorted-map model after every operation; every query name looked up on the live and the reloaded instance; CLI rm/restore/add on every small entry set; CLI: all subsets of a 6-path pool of depth-3 names x one- and two-argument rm/restore/restore --staged/add, and staging areas of 200 / 900 entries",
    text="For every enumerated entry set, order and history the index file decodes to exactly the model's entries in strictly ascending byte order without duplicates, a fresh load yields the same, and for every query name GetEntry finds it iff tracked, IsRegisteredAsDirectory holds iff some tracked path lies beneath '<name>/', GetEntriesByDirectory returns exactly those paths; rm/restore/add <name> succeed or refuse accordingly.",
    note="Trusted: the harness's index decoder and prefix predicates. Entry sets above size k and names outside the universe are not covered.",
)
claimed["C12"] = dict(
    category="model_checking",
    technique="exhaustive enumeration of all 105 quarter-hour UTC offsets -12:00..+14:00: in-module (offsets x 8 instants; offsets x 8 names x 3 e-mails x 12 messages through Sign.String / NewObject / NewCommit) and CLI (commit under a generated TZif file per offset; names x messages at four offsets), read back by an independent decoder, cat-file -p and log; log read back under a different reader time zone; identity split over local and global config; a 40 KiB message and a 70000-byte line",
    text="For every enumerated offset, instant, name, e-mail and message: commit exits 0; the stored author and committer lines equal 'Name <email> <secs> +HHMM|-HHMM' with HH:MM the magnitude of the offset; NewCommit / cat-file -p / log give back the same name, e-mail, instant, offset and message text.",
    note="Trusted: gitfmt, the log parser, the TZif generator (checked by the stored offset itself). Names, e-mails and messages outside the enumerated families are not covered.",
)
claimed["C19"] = dict(
    category="model_checking",
    technique="exhaustive single-edit neighbourhood of every file Goit wrote in a corpus repository (every truncation, single-byte deletion, single-byte substitution; object files raw and at the level of their inflated content, re-deflated), every ordered swap of two object files, and all token strings up to length n for each text decoder; after each mutant every exported loader is called in-module under a panic guard, a 20 s watchdog and an address-space limit; read-only CLI commands on every truncation; CLI: cat-file -t/-p of every object after every ordered swap of two object files and after every truncation of its file, success only with the original kind/bytes",
    text="For every enumerated mutant no loader panicked, hung or exhausted memory, no command exited with a status other than 0 or 1, and GetObject never returned err == nil with a kind or content different from the object of the requested id (damaged, truncated, bit-flipped or swapped files are reported as errors).",
    note="Trusted: the harness's guards. 'Arbitrary byte strings (coverage-guided)' is outside this family: bytes far from any valid file and outside the token grammars are not covered.",
)
claimed["C15"] = dict(
    category="fault_enumeration",
    technique="exhaustive crash-point enumeration: for every transition of a bounded BFS corpus (one representative of each modifying command, six seed states) the operation trace is recorded through an import-swap file-system seam and the command is re-run once per modifying operation (create/truncate, write, mkdir, rename, remove) with a kill immediately before it; every post-crash disk is judged by a recovery suite; after every crash the next command (the same command again; with leftover temp files also switch, switch -c, add ., commit) is run and judged by the same invariants; corpus includes a 253-byte branch name, a 6 KB config key and a staging area above 64 KiB",
    text="For every crash point of every corpus transition the post-crash repository still loads (ls-files exits 0; every read-only command that worked before and after the uninterrupted command still works, none panics), passes the independent fsck, keeps every previously intact object intact, and every branch names either its old commit or the commit of the uninterrupted run; an interrupted init leaves either a loadable repository or a directory where init can be run again.",
    note="Crash model: process killed, kernel survives (post-crash disk = prefix of the modification sequence); power-loss reordering of unsynced pages is outside the statement and not modelled. Deviation bound 1 (one kill per execution), complete within the corpus; no randomly generated states (different family). Trusted: the seam (checked against the plain build), gitfmt.",
)
claimed["C16"] = dict(
    category="fault_enumeration",
    technique="exhaustive single-fault enumeration: for every transition of the same corpus, every operation point of kind create/open/read/readdir/write/mkdir/rename/remove (incl. those of start-up loading) x errno class (EIO; thorough adds ENOSPC, EACCES) fails once without touching the disk; each run is compared with the fault-free run; directory walks of path/filepath are routed through the seam as well; after every reported failure that changed the disk the next command is run and judged by the connectivity invariant; corpus includes a staging area above 64 KiB and a 6 KB config key",
    text="For every single-fault position of every corpus transition the command either produced exactly the fault-free exit status, output and disk state, or exited non-zero without crashing; it never reported success with a different state; afterwards the repository passed the independent fsck, previously intact objects were intact, and a branch that moved named exactly the fault-free tip.",
    note="Faults at operation granularity (a write either completes or fails; no short writes); stat calls excluded as the statement says. Deviation bound 1. Trusted: the seam, gitfmt.",
)
