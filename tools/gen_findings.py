#!/usr/bin/env python3
# Regenerates known_findings.json from tools/fixes.tsv (hash, property, oracle, command, what failed).
# Every entry is "fixed": it documents a repaired defect and suppresses nothing.
import json
V = "/verif"
old = json.load(open(f"{V}/known_findings.json"))
entries = []
for l in open(f"{V}/tools/fixes.tsv"):
    l = l.rstrip("\n")
    if not l or l.startswith("#"):
        continue
    h, prop, oracle, cmd, what = l.split("\t", 4)
    entries.append({"status": "fixed", "property": prop, "commit": h, "title": what,
                    "line": f"fixed: property={prop} {h} {what}",
                    "signature": {"oracle": oracle, "command": cmd, "tags": []}})
old["entries"] = entries
json.dump(old, open(f"{V}/known_findings.json", "w"), indent=1)
print(len(entries), "entries")
