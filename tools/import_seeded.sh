#!/bin/sh
# usage: tools/import_seeded.sh Cxx   — copies the deliverables of ${MUTDIR:-/tmp/mut}/Cxx/_out into /verif/seeded/Cxx-m1, Cxx-m2
p=$1
for m in m1 m2 m3; do
  o=${MUTDIR:-/tmp/mut}/$p/_out
  [ -f $o/$m.diff ] || continue
  d=/verif/seeded/$p-${PFX:-}$m; mkdir -p $d
  cp $o/$m.diff $d/patch.diff
  for f in $o/${m}_demo*; do [ -f "$f" ] && cp $f $d/demo${f##*_demo}; done
  cp $o/$m.json $d/meta.json 2>/dev/null || echo '{"property":"'$p'","summary":"","needs":""}' > $d/meta.json
  echo imported $d: $(ls $d)
done
