#!/usr/bin/env python3
"""DESIGN.md = tools/DESIGN.tmpl.md with the fix table, the seeded-change table and Appendix C filled in."""
import json, glob, os
V = "/verif"
t = open(f"{V}/tools/DESIGN.tmpl.md").read()
rows = []
for l in open(f"{V}/tools/fixes.tsv"):
    h, prop, oracle, cmd, what = l.rstrip("\n").split("\t")
    rows.append(f"| `{h}` | {prop} `{oracle}` ({cmd}) | {what} |")
t = t.replace("@FIXTABLE@", "\n".join(rows)).replace("@NFIX@", str(len(rows)))
seeded = []
res = {}
p = f"{V}/seeded/RESULTS.tsv"
if os.path.exists(p):
    for l in open(p):
        f = l.rstrip("\n").split("\t")
        if len(f) >= 3:
            res[f[0]] = f[1:]
metas = sorted(glob.glob(f"{V}/seeded/*/meta.json"))
if metas:
    seeded.append("Each change compiles, passes the repository's own tests, and comes with a demonstration that fails with it and passes without it (all re-verified here in a scratch worktree). `tools/run_seeded.sh` applies each to a scratch copy and runs the checks.\n")
    seeded.append("| id | breaks | what it does / what it needs | caught by (tier) |")
    seeded.append("|----|--------|------------------------------|------------------|")
    for m in metas:
        d = json.load(open(m))
        sid = os.path.basename(os.path.dirname(m))
        r = res.get(sid, ["(not run yet)", ""])
        if d.get("stale"):
            r = ["stale: " + d["stale"], ""]
        cut = lambda x, n: (x[:n] + ("…" if len(x) > n else "")).replace("|", "/").replace(chr(10), " ")
        seeded.append(f"| {sid} | {d.get('property','')} | {cut(d.get('summary',''), 300)} — needs: {cut(d.get('needs',''), 220)} | {r[0]} {r[1] if len(r)>1 else ''} |")
else:
    seeded.append("(being collected)")
t = t.replace("@SEEDED@", "\n".join(seeded))
t = t.replace("@APPENDIXC@", open(f"{V}/tools/appendixC.md").read())
open(f"{V}/DESIGN.md", "w").write(t)
print("DESIGN.md written,", len(rows), "fixes,", len(metas), "seeded")
